"""C03 - component listings mirror the components of resident agents."""
from __future__ import annotations

import ast
from fractions import Fraction

from sa.report import Cx
from sa.walker import WalkOptions
from sa.terms import (Sym, Attr, Sub, App, Num, Fresh, Const, TupleT, AIn, ACmp, ATruthy, f_not, f_and, implies, mk_cmp, compare)
from .common import (CORE, ENV, check_atomic, check_pure, check_lookup, strip_versions, iteration_sources, order_class,
                     check_presence_not_truthiness, check_keyed_insert, check_keyed_delete)

PID = 'C03'
EXPLANATION = (
    "The mirror invariant pools[T] == [a.components[T] for a in env.agents if T in a.components] as an induction over "
    "writers. R-PAIR join/leave: Environment.add_agent's success paths store the agent and call register_component on "
    "the value of every key of agent.components (one call per key, loop over the live dict); remove_agent's success "
    "paths call deregister_component on every one and delete the agent; every package override reaches the base "
    "implementation on each success path (must-pass-through on CFG paths). R-PAIR attach/detach: every writer of "
    "Agent.components on a possibly-resident agent must reach the matching pool update in the call graph. R-DISC on "
    "component_pools: new pools are one-element list literals keyed by type(component), growth is tail append after the "
    "duplicate test, and after the element removal an emptiness test followed by deletion of the key covers every "
    "path. R-ATOMIC for register/deregister KeyError. R-SHARED: pools/registry/queue are fresh literals per "
    "SystemManager, Model builds its own manager; no class-level mutable state. Listing accessors are pure and return "
    "None exactly on the absent, lenient branch.")
EXPLANATION += (" Also: Agent.get_component / __getitem__ return the entry exactly when the key is present (three-case lookup, no truthiness); add_agent / remove_agent (de)register on self.model.systems (the environment's own model); Agent.add_component / remove_component store / delete one entry under the absence / presence test.")
EXPLANATION += (' Component pools are never sorted / reversed / shuffled in place through manager[T] or get_components(T); add_agent stores the agent before it registers its components (resident before listed).')
EXPLANATION += (' register_component / deregister_component are called from join / leave / attach / detach only.')
ASSUMPTIONS = ["component classes use identity equality (quantifier)", "the position component managed by spatial worlds is excluded by the property",
               "model.environment is not replaced wholesale (outside the quantifier)"]

PLOC = (CORE + 'SystemManager', 'component_pools')
CLOC = (CORE + 'Agent', 'components')
REG = CORE + 'SystemManager.register_component'
DEREG = CORE + 'SystemManager.deregister_component'


def _calls_to(p, qual):
    return [e for e in p.events if e.kind == 'call' and any(t.qualname == qual for t in e.data.get('targets', []))]


def _component_of(arg, agent_terms, key):
    """Does `arg` denote <agent>.components[key]?"""
    arg = strip_versions(arg)
    for ag in agent_terms:
        if arg == Sub(ag, key) or arg == Sub(Attr(ag, 'components'), key):
            return True
        if isinstance(arg, App) and arg.fn.endswith('get_component') and arg.args[:2] == (ag, key):
            return True
        if isinstance(arg, Sub) and strip_versions(arg.base) in (ag, Attr(ag, 'components')) and arg.index == key:
            return True
    return False


def _check_each_component(cx, fn, p, agent_terms, callee_q, what):
    """On path p: a loop over <agent>.components whose every iteration calls callee_q once on that key's component."""
    calls = _calls_to(p, callee_q)
    loops = [e for e in p.events if e.kind == 'loop']
    comp_loops = []
    for lp in loops:
        it = strip_versions(lp.data.get('iter'))
        for ag in agent_terms:
            if order_class(it, Attr(ag, 'components')) == 'inorder':
                comp_loops.append(lp)
    if len(comp_loops) != 1:
        return f"no single loop over the agent's components (found {len(comp_loops)})"
    lp = comp_loops[0]
    ends = [e for e in p.events if e.kind == 'endloop' and e.node is lp.node]
    if not ends or any(e.data.get('how') != 'exhausted' for e in ends):
        return "the loop over the agent's components is left before every component was handled"
    iters = [e for e in p.events if e.kind == 'iter' and e.node is lp.node]
    if len(calls) != len(iters):
        return f"{len(calls)} {what} call(s) in {len(iters)} iteration(s) over the components"
    for it_ev in iters:
        info = it_ev.data['info']
        mine = [c for c in calls if c.loops and c.loops[-1] == lp.node.lineno and
                p.events.index(c) > p.events.index(it_ev)]
        nxt = [e for e in iters if p.events.index(e) > p.events.index(it_ev)]
        if nxt:
            mine = [c for c in mine if p.events.index(c) < p.events.index(nxt[0])]
        if len(mine) != 1:
            return f"an iteration over the components performs {len(mine)} {what} calls"
        arg = mine[0].data.get('args', (None,))[0] if mine[0].data.get('args') else None
        key = info.get('var') or info.get('index')
        kind = info.get('kind')
        itn = strip_versions(lp.data.get('iter'))
        ok = False
        if kind == 'iter' and isinstance(itn, App) and itn.fn == '.values':
            ok = arg == info.get('var')
        elif kind == 'items':
            ok = arg == Sub(info['seq'], info['index']) or _component_of(arg, agent_terms, info['index'])
        elif key is not None:
            ok = _component_of(arg, agent_terms, key)
        if not ok:
            return f"{what} is called with {arg!r}, which is not the component stored under the iteration's key"
    return None


def run(cx: Cx):
    prog = cx.prog
    env = prog.cls(CORE + 'Environment')
    add = cx.fn(CORE + 'Environment.add_agent')
    rem = cx.fn(CORE + 'Environment.remove_agent')
    reg = cx.fn(REG)
    dereg = cx.fn(DEREG)

    # ------------------------------------------------------------ clause 1: join / leave
    agent = Sym(add.params[1])
    n = 0
    for p in cx.walker.paths(add, WalkOptions(unroll=2)):
        if p.end == 'raise':
            continue
        n += 1
        err = _check_each_component(cx, add, p, [agent], REG, 'register_component')
        if err:
            cx.violation('R-PAIR', add.qualname, 'registers-every-component-of-the-joining-agent',
                         f"Environment.add_agent: {err}; path condition {p.cond!r}", where=cx.where(add), path=p.lines())
            break
    else:
        if n:
            cx.ok('R-PAIR', f"add_agent registers every component of the joining agent ({n} success paths)",
                  where=cx.where(add), function=add.qualname)
    cx.floor('add_agent success paths', n, 2)
    # ... and it is resident before it is listed: register_component refuses a component that is listed already (the explicit
    # registration the scheduler also offers), and a join that is refused half-way must not leave components of a non-resident listed
    ALOC = (CORE + 'Environment', 'agents')
    n_ord = 0
    for p in cx.walker.paths(add, WalkOptions(unroll=2, callee_raises=False)):
        if p.end == 'raise':
            continue
        regs = [i for i, e in enumerate(p.events) if e.kind == 'call' and any(t.qualname == REG for t in e.data.get('targets', []))]
        stores = [i for i, e in enumerate(p.events) if e.kind == 'store' and e.data.get('loc') == ALOC]
        if not regs or not stores:
            continue
        n_ord += 1
        if min(stores) > min(regs):
            cx.violation('R-ORDER', add.qualname, 'resident-before-listed',
                         "Environment.add_agent registers components before the agent is stored in `agents`: when a later registration "
                         "is refused (KeyError for a component that was registered by hand), the components registered so far stay "
                         "listed for an agent that never became resident", where=cx.where(add, p.events[min(regs)].line), path=p.lines())
            break
    else:
        if n_ord:
            cx.ok('R-ORDER', f"add_agent stores the agent before it registers its components ({n_ord} path(s))", where=cx.where(add),
                  function=add.qualname)
    a_id = Sym(rem.params[1])
    agents = Attr(Sym(rem.params[0]), 'agents')
    rself = Sym(rem.params[0])
    resident = [Sub(agents, a_id), App('.pop', (agents, a_id)), App('.get', (agents, a_id)),
                App('call:' + CORE + 'Environment.get_agent', (rself, a_id)), App('call:' + CORE + 'Environment.get_agent', (rself, a_id, Const(True))),
                App('call:' + CORE + 'Environment.get_agent', (rself, a_id), (('throw_error', Const(True)),))]
    n = 0
    for p in cx.walker.paths(rem, WalkOptions(unroll=2)):
        if p.end == 'raise':
            continue
        n += 1
        err = _check_each_component(cx, rem, p, resident, DEREG, 'deregister_component')
        if err:
            cx.violation('R-PAIR', rem.qualname, 'deregisters-every-component-of-the-leaving-agent',
                         f"Environment.remove_agent: {err}; path condition {p.cond!r}", where=cx.where(rem), path=p.lines())
            break
    else:
        if n:
            cx.ok('R-PAIR', f"remove_agent deregisters every component of the leaving agent ({n} success paths)",
                  where=cx.where(rem), function=rem.qualname)
    cx.floor('remove_agent success paths', n, 2)

    # overrides must pass through the base implementation
    n_over = 0
    for sub in prog.subclasses(env, strict=True):
        for name, base in (('add_agent', add), ('remove_agent', rem)):
            if name not in sub.methods:
                continue
            fn = sub.methods[name][0]
            n_over += 1
            bad = None
            cnt = 0
            for p in cx.walker.paths(fn, WalkOptions(unroll=1)):
                if p.end == 'raise':
                    continue
                cnt += 1
                parent = prog.lookup_method_from(sub, sub, name)
                calls = [e for e in p.events if e.kind == 'call' and e.data.get('via') == 'super' and
                         e.data.get('targets') and e.data['targets'][0].name == name]
                first_arg = Sym(fn.params[1]) if len(fn.params) > 1 else None
                if len(calls) != 1 or (calls[0].data.get('args') or (None,))[0] != first_arg:
                    bad = p
            if bad is not None:
                cx.violation('R-PAIR', fn.qualname, f"override-reaches-base-{name}",
                             f"{fn.qualname}: a success path does not pass (exactly once, with the same agent) through "
                             f"the base {name}, so the component listings are not updated", where=cx.where(fn), path=bad.lines())
            elif cnt:
                cx.ok('R-PAIR', f"{fn.qualname} passes through the base {name} on every success path", where=cx.where(fn),
                      function=fn.qualname)
    cx.floor('package overrides of add_agent/remove_agent', n_over, 2)

    # ------------------------------------------------------------ clause 2: attach / detach on a possibly-resident agent
    csites = cx.effects.sites_of(CLOC)
    cx.floor('Agent.components write sites', len(csites), 3)
    f12 = False
    for s in csites:
        v = s.ev.data.get('value')
        if s.kind == 'rebind':
            if s.owner_name == '__init__' and isinstance(v, Fresh) and v.kind == 'dict' and not v.items:
                cx.ok('R-SHARED', 'Agent.components allocated fresh per instance', where=s.where, function=s.fn.qualname)
            else:
                cx.violation('R-DISC', s.fn.qualname, 'components-rebound',
                             f"{s.describe()}: an agent's component map is replaced wholesale (the listings cannot follow)",
                             where=s.where)
            continue
        want = reg if s.kind in ('setitem', 'update', 'setdefault') else dereg
        reach = cx.effects.reachable([s.fn])
        if cx.effects.key(want) in reach:
            cx.ok('R-PAIR', f"{s.fn.qualname} ({s.kind}) reaches {want.name}", where=s.where, function=s.fn.qualname)
        else:
            f12 = True
            cx.violation('R-PAIR', s.fn.qualname, f"no-path-to-{want.name}",
                         f"{s.fn.qualname} writes Agent.components ({s.kind}) with no call path to "
                         f"SystemManager.{want.name}: attaching/detaching a component of a resident agent is not "
                         f"reflected in the model's component listings", where=s.where)
    # consequence (F3): while the mirror can be broken by the writers above, removal of a present agent can fail midway
    if f12:
        for p in cx.walker.paths(rem, WalkOptions(unroll=1)):
            if p.end == 'raise' and not p.last.data.get('direct') and p.last.data.get('exc') == 'KeyError' and \
                    implies(p.cond, AIn(a_id, agents)) is None:
                cx.violation('R-PAIR', rem.qualname, 'deregister-KeyError-escapes-for-a-present-agent',
                             "Environment.remove_agent: for a present agent whose component was attached while resident "
                             "(not registered), deregister_component raises KeyError before the agent is deleted - the "
                             "agent cannot be removed", where=cx.where(rem, p.last.line), path=p.lines())
                break

    # ------------------------------------------------------------ clause 3: R-DISC on component_pools
    comp = Sym(reg.params[1])
    pools = Attr(Sym(reg.params[0]), 'component_pools')
    tkey = App('type', (comp,))
    n = 0
    for p in cx.walker.paths(reg, WalkOptions(unroll=1)):
        if p.end == 'raise':
            continue
        n += 1
        st = [e for e in p.events if e.kind == 'store' and e.data.get('loc') == PLOC]
        absent = implies(p.cond, f_not(AIn(tkey, pools))) is None
        present = implies(p.cond, AIn(tkey, pools)) is None
        ok = False
        if len(st) == 1:
            e = st[0]
            v = e.data.get('value')
            if absent and e.data.get('store') == 'setitem' and strip_versions(e.data.get('target')) == pools and \
                    e.data.get('key') == tkey and isinstance(v, Fresh) and v.kind == 'list' and v.items == (comp,):
                ok = True
            if present and e.data.get('store') == 'append' and strip_versions(e.data.get('target')) == Sub(pools, tkey) \
                    and e.data.get('args') == (comp,):
                ok = True
                # ... and only a component that is not listed yet: an instance listed twice stays listed after its agent left
                if implies(p.cond, f_not(AIn(comp, Sub(pools, tkey)))) is not None:
                    ok = False
                    cx.violation('R-DISC', reg.qualname, 'pool-append-only-when-not-listed',
                                 f"register_component appends to an existing pool on a path [{p.cond!r}] that has not established that "
                                 f"the component is not listed yet: the same instance can be listed twice, and one copy stays listed "
                                 f"after its agent left", where=cx.where(reg, e.line), path=p.lines())
                    continue
            # new pool created empty and filled at once: pools[type(c)] = []; <that list>.append(c)
            if absent and e.data.get('store') == 'setitem' and strip_versions(e.data.get('target')) == pools and \
                    e.data.get('key') == tkey and isinstance(v, Fresh) and v.kind == 'list' and not v.items:
                later = [x for x in p.events[p.events.index(e) + 1:] if x.kind == 'store' and
                         strip_versions(x.data.get('target')) in (v, Sub(pools, tkey))]
                ok = len(later) == 1 and later[0].data.get('store') == 'append' and later[0].data.get('args') == (comp,)
        elif len(st) == 2 and absent:
            e, e2 = st
            v = e.data.get('value')
            ok = e.data.get('store') == 'setitem' and strip_versions(e.data.get('target')) == pools and e.data.get('key') == tkey and \
                isinstance(v, Fresh) and v.kind == 'list' and not v.items and e2.data.get('store') == 'append' and \
                strip_versions(e2.data.get('target')) in (v, Sub(pools, tkey)) and e2.data.get('args') == (comp,)
        if ok:
            cx.ok('R-DISC', f"register_component: {'new pool [c]' if absent else 'tail append'} keyed by type(component)",
                  where=cx.where(reg, st[0].line), function=reg.qualname)
        else:
            cx.violation('R-DISC', reg.qualname, 'pool-grows-by-tail-append-keyed-by-type',
                         f"register_component: a success path must either create pools[type(c)] = [c] (type absent) or "
                         f"append c at the tail of pools[type(c)] (type present); found "
                         f"{[(e.data.get('store'), repr(e.data.get('target')), repr(e.data.get('key'))) for e in st]} under {p.cond!r}",
                         where=cx.where(reg, st[0].line if st else None), path=p.lines())
    cx.floor('register_component success paths', n, 2)
    dcomp = Sym(dereg.params[1])
    dpools = Attr(Sym(dereg.params[0]), 'component_pools')
    dkey = App('type', (dcomp,))
    pool = Sub(dpools, dkey)
    n = 0
    for p in cx.walker.paths(dereg, WalkOptions(unroll=1)):
        if p.end == 'raise':
            continue
        n += 1
        st = [e for e in p.events if e.kind == 'store' and e.data.get('loc') == PLOC]
        rm = [e for e in st if e.data.get('store') == 'remove' and strip_versions(e.data.get('target')) == pool and e.data.get('args') == (dcomp,)]
        dl = [e for e in st if e.data.get('store') in ('delitem', 'pop') and strip_versions(e.data.get('target')) == dpools and e.data.get('key') == dkey]
        others = [e for e in st if e not in rm and e not in dl]
        empty = mk_cmp(App('len', (pool,)), '==', Num(Fraction(0)))
        post = f_and(*[c.data['formula'] for c in p.events if c.kind == 'cond' and rm and p.events.index(c) > p.events.index(rm[0])])
        if len(rm) != 1 or others:
            cx.violation('R-DISC', dereg.qualname, 'removes-the-component-from-its-pool',
                         f"deregister_component: a success path must remove exactly the component from pools[type(c)]; found "
                         f"{[(e.data.get('store'), repr(e.data.get('target'))) for e in st]}", where=cx.where(dereg), path=p.lines())
            continue
        is_empty = compare(post, empty, domain='int') is None or implies(post, empty) is None
        is_nonempty = implies(post, f_not(empty)) is None
        if (dl and is_empty and p.events.index(dl[0]) > p.events.index(rm[0])) or (not dl and is_nonempty):
            cx.ok('R-DISC', f"deregister_component: element removal then {'delete the empty pool' if dl else 'non-empty pool kept'}",
                  where=cx.where(dereg, rm[0].line), function=dereg.qualname)
        else:
            cx.violation('R-DISC', dereg.qualname, 'empty-pool-deleted',
                         "deregister_component: after the element removal the key must be deleted exactly when the pool "
                         "became empty (otherwise 'none' is reported as [] instead of None, or a non-empty pool vanishes); "
                         f"conditions after the removal: {post!r}, key deleted: {bool(dl)}", where=cx.where(dereg, rm[0].line),
                         path=p.lines())
    cx.floor('deregister_component success paths', n, 2)
    psites = cx.effects.sites_of(PLOC)
    for s in psites:
        if s.owned_within((reg.qualname, dereg.qualname)):
            continue
        v = s.ev.data.get('value')
        if s.owner_q == CORE + 'SystemManager.__init__' and s.kind == 'rebind' and isinstance(v, Fresh) and v.kind == 'dict' and not v.items:
            cx.ok('R-SHARED', 'component_pools allocated fresh per SystemManager', where=s.where, function=s.fn.qualname)
        else:
            cx.violation('R-DISC', s.fn.qualname, f"component_pools-{s.kind}",
                         f"{s.describe()}: component_pools is written outside register/deregister_component", where=s.where)
    cx.floor('component_pools write sites', len(psites), 4)
    # ... nor reordered through a name that still is the pool: `manager[T]` / `get_components(T)` hand out the live list, and sorting,
    # reversing or shuffling that list in place destroys the joining order of the listing for everybody
    from sa.walker import _Ctx
    from sa.terms import subterms_of
    sm_cls = prog.cls(CORE + 'SystemManager')
    n_re = 0
    for s in cx.effects.all_sites():
        if s.kind not in ('shuffle', 'sort', 'reverse') or s.loc == PLOC:
            continue
        n_re += 1
        tctx = _Ctx(cx.walker, s.fn, WalkOptions())
        hit = None
        for x in subterms_of(s.ev.data.get('target')):
            x = strip_versions(x)
            if isinstance(x, Sub):
                b = strip_versions(x.base)
                try:
                    bt = tctx.term_type(b)
                except Exception:
                    bt = None
                if (isinstance(b, Attr) and b.name == PLOC[1]) or (bt and bt[0] == 'inst' and bt[1] == sm_cls and
                                                                  not (isinstance(x.index, Const) and isinstance(x.index.value, str))):
                    hit = x
            elif isinstance(x, App) and x.fn in ('call:' + CORE + 'SystemManager.get_components', 'call:' + CORE + 'SystemManager.__getitem__'):
                hit = x
        if hit is not None:
            cx.violation('R-DISC', s.fn.qualname, f"pool-{s.kind}-in-place",
                         f"{s.describe()}: {hit!r} is the live component pool, and it is reordered in place - the listing is no longer in "
                         f"the order the agents joined", where=s.where)
    if not any('-in-place' in o.key and o.key.split(':')[-1].startswith('pool-') for o in cx.violations()):
        cx.ok('R-DISC', f"no in-place reordering reaches a component pool ({n_re} sort / reverse / shuffle site(s) examined)",
              where=cx.where(reg), function=reg.qualname)

    # who may list a component: joining and leaving (and, for a resident, attaching and detaching - finding F1/F2 is that this path is
    # missing) - and nobody else.  An override that also lists the environment's OWN components puts a component of no resident
    # agent into the listing, and its pool never empties
    may_list = {add.qualname, rem.qualname, CORE + 'Agent.add_component', CORE + 'Agent.remove_component'}
    n_cl = 0
    stray = None
    for target in (reg, dereg):
        for k, ev in cx.effects.callers_of(target):
            kf = prog.functions.get(k.split('#')[0])
            if kf is None:
                continue
            n_cl += 1
            roots = cx.effects.public_roots(kf)
            if not (roots & may_list) and not all(r.startswith(CORE + 'SystemManager.') for r in roots):
                stray = stray or (kf, ev, target)
    if stray:
        kf, ev, target = stray
        cx.violation('R-DISC', kf.qualname, 'listing-changed-by-join-leave-attach-detach-only',
                     f"{kf.qualname} calls {target.name}: components are listed when their agent joins (or they are attached to a resident) "
                     f"and unlisted when it leaves (or they are detached) - a component listed from anywhere else belongs to no resident "
                     f"agent of the environment", where=cx.where(kf, ev.line))
    else:
        cx.ok('R-DISC', f"register / deregister_component are called by join / leave only ({n_cl} call site(s))", where=cx.where(reg),
              function=reg.qualname)

    # ------------------------------------------------------------ clause 4: R-ATOMIC
    check_atomic(cx, add.qualname, ['DuplicateAgentError'])
    check_atomic(cx, rem.qualname, ['AgentNotFoundError'])
    check_atomic(cx, reg.qualname, ['KeyError'])
    check_atomic(cx, dereg.qualname, ['KeyError'])

    # ------------------------------------------------------------ clause 5: R-SHARED
    for sp in list(cx.seed_problems):
        if 'SystemManager.' in sp and 'literal' in sp:
            cx.seed_problems.remove(sp)
            cx.violation('R-SHARED', CORE + 'SystemManager.__init__', 'fresh-container-per-manager',
                         f"{sp}: the scheduler's containers must be allocated fresh in SystemManager.__init__, otherwise "
                         f"models share component listings", where=cx.where(cx.fn(CORE + 'SystemManager.__init__')))
    for cq in (CORE + 'SystemManager', CORE + 'Environment', CORE + 'Agent', CORE + 'Model'):
        ci = prog.cls(cq)
        muts = [k for k, v in ci.class_assigns.items() if k != '__slots__' and isinstance(v, (ast.List, ast.Dict, ast.Set, ast.ListComp, ast.DictComp, ast.Call))]
        init = prog.lookup_method(ci, '__init__')
        mdef = []
        if init:
            a = init[0].node.args
            for d in list(a.defaults) + [x for x in a.kw_defaults if x is not None]:
                if isinstance(d, (ast.List, ast.Dict, ast.Set, ast.Call)):
                    mdef.append(ast.unparse(d))
        if muts or mdef:
            cx.violation('R-SHARED', cq, 'no-shared-mutable-state',
                         f"{cq}: class-level mutable attribute(s) {muts} / mutable default argument(s) {mdef} are shared "
                         f"between instances, so models can see each other's components", where=ci.where)
        else:
            cx.ok('R-SHARED', f"{ci.name}: no class-level mutable state, no mutable defaults", where=ci.where, function=cq)
    minit = cx.fn(CORE + 'Model.__init__')
    for p in cx.walker.paths(minit, WalkOptions(unroll=1)):
        st = [e for e in p.events if e.kind == 'store' and e.data.get('attr') == 'systems']
        v = st[0].data.get('value') if st else None
        if len(st) == 1 and isinstance(v, App) and v.fn == 'new:' + CORE + 'SystemManager':
            continue
        cx.violation('R-SHARED', minit.qualname, 'own-system-manager', f"Model.__init__ does not build its own SystemManager (found {v!r})",
                     where=cx.where(minit))
        break
    else:
        cx.ok('R-SHARED', 'every Model builds its own SystemManager', where=cx.where(minit), function=minit.qualname)

    # ------------------------------------------------------------ clause 6: accessors
    gc = cx.fn(CORE + 'SystemManager.get_components')
    check_pure(cx, gc.qualname)
    check_pure(cx, CORE + 'SystemManager.__getitem__')
    check_lookup(cx, gc.qualname, Attr(Sym(gc.params[0]), 'component_pools'), Sym(gc.params[1]), 'KeyError')
    # model.systems[T] is the listing for EVERY key that is not a system id (a str): component classes may have any metaclass
    # (abc.ABC, ...), so the listing must be the fall-through case, not a case selected by `type(T) == type`
    import ast as _ast
    from sa.walker import _Ctx, State
    sgi = cx.fn(CORE + 'SystemManager.__getitem__')
    item = Sym(sgi.params[1])
    cxt = _Ctx(cx.walker, sgi, WalkOptions())
    is_str = []
    for key_expr in (sgi.params[1], f"{sgi.params[1]}[0]"):
        st0 = State()
        st0.env[sgi.params[1]] = item
        st0.env[sgi.params[0]] = Sym(sgi.params[0])
        is_str.append(cxt.formula(cxt.ev(_ast.parse(f"type({key_expr}) == str", mode='eval').body, st0), st0))
    bad_p = None
    n_gi = 0
    for p in cx.walker.paths(sgi, WalkOptions(unroll=1, callee_raises=False)):
        n_gi += 1
        lists = any(e.kind == 'call' and any(t.qualname == gc.qualname for t in e.data.get('targets', [])) for e in p.events)
        if lists:
            continue
        if not any(implies(p.cond, f) is None for f in is_str):
            # the key may have been normalised first ((item, False)[0], a local, ...): any established `type(<key>) == str`
            from sa.terms import atoms_of
            str_sym = [a for f in is_str for a in atoms_of(f)][0]
            same_shape = [a for a in atoms_of(p.cond) if type(a) is type(str_sym) and repr(a).startswith('type(') and repr(a).endswith(repr(str_sym).split('==')[-1])]
            if any(implies(p.cond, a) is None for a in same_shape):
                continue
            bad_p = p
            break
    if bad_p is not None:
        cx.violation('R-GUARD', sgi.qualname, 'every-non-str-key-is-a-component-listing',
                     f"SystemManager.__getitem__ answers a key without consulting the component pools on a path [{bad_p.cond!r}] that has "
                     f"not established that the key is a str (a system id): model.systems[T] reports no components for a component "
                     f"class such a test does not recognise (a class with a metaclass, ...)", where=cx.where(sgi, bad_p.last.line if bad_p.last else None),
                     path=bad_p.lines())
    else:
        cx.ok('R-GUARD', f"model.systems[key]: every key that is not a str is looked up in the component pools ({n_gi} paths)",
              where=cx.where(sgi), function=sgi.qualname)
    # pool operations (in / remove) compare with ==: the package's own component classes keep identity equality
    compc = prog.cls(CORE + 'Component')
    for ci_ in prog.subclasses(compc):
        bad_m = [m for m in ('__eq__', '__hash__', '__ne__') if m in ci_.methods]
        if bad_m:
            cx.violation('R-DISC', ci_.qualname, 'components-compare-by-identity',
                         f"{ci_.qualname} defines {bad_m}: `component in pool` / `pool.remove(component)` then act on the first EQUAL "
                         f"component (user subclasses inherit it): a joining agent's component is refused as already registered, a "
                         f"leaving agent removes another agent's component from the listing", where=ci_.where)
    cx.ok('R-DISC', 'Component and its package subclasses keep identity equality', where=compc.where, function=compc.qualname)

    # ------------------------------------------------------------ clause 7: what join / leave are built on
    # join and leave fetch each component through agent[key] == Agent.get_component(key): the accessor must return the entry
    # whenever the key is present (a truthiness test would hand back None for a falsy component, and None gets registered)
    gcomp = cx.fn(CORE + 'Agent.get_component')
    check_lookup(cx, gcomp.qualname, Attr(Sym(gcomp.params[0]), 'components'), Sym(gcomp.params[1]), 'ComponentNotFoundError')
    gi = cx.fn(CORE + 'Agent.__getitem__')
    for p in cx.walker.paths(gi, WalkOptions(unroll=0, callee_raises=False)):
        if p.end != 'return':
            continue
        v = strip_versions(p.last.data.get('value')) if p.end == 'return' else None
        sym_self, item = Sym(gi.params[0]), Sym(gi.params[1])
        oks = (App('call:' + gcomp.qualname, (sym_self, item)), Sub(Attr(sym_self, 'components'), item), App('.get', (Attr(sym_self, 'components'), item)),
               App('.get', (Attr(sym_self, 'components'), item, Const(None))))
        if v in oks or (isinstance(v, App) and v.fn == 'call:' + gcomp.qualname and v.args[:2] == (sym_self, item) and
                        (len(v.args) == 2 or v.args[2] == Const(False)) and all(val == Const(False) for _, val in v.kw)):
            cx.ok('R-FWD', 'agent[key] is the lenient component lookup', where=cx.where(gi), function=gi.qualname)
        else:
            cx.violation('R-FWD', gi.qualname, 'getitem-is-the-component-lookup', f"Agent.__getitem__ returns {v!r}, not the agent's "
                         f"component of the requested type (None when absent)", where=cx.where(gi))
    check_presence_not_truthiness(cx, [gcomp.qualname, add.qualname, rem.qualname, REG, DEREG])
    # listings of THIS environment's model: (de)registration goes to self.model.systems, whatever model the agent was built with
    for fn, callee_q in ((add, REG), (rem, DEREG)):
        want = Attr(Attr(Sym(fn.params[0]), 'model'), 'systems')
        bad = None
        cnt = 0
        for p in cx.walker.paths(fn, WalkOptions(unroll=1)):
            for e in _calls_to(p, callee_q):
                cnt += 1
                if strip_versions(e.data.get('recv')) != want and bad is None:
                    bad = e
        if bad is not None:
            cx.violation('R-PAIR', fn.qualname, 'listing-of-the-environments-own-model',
                         f"{fn.qualname} calls {callee_q.rsplit('.', 1)[-1]} on {bad.data.get('recv')!r}; join and leave must both go to "
                         f"{want!r}, otherwise an agent built for another model is listed there and never leaves it",
                         where=cx.where(fn, bad.line))
        elif cnt:
            cx.ok('R-PAIR', f"{fn.name}: (de)registration goes to the environment's own model", where=cx.where(fn), function=fn.qualname)
    # attach / detach keep one component per type and reject duplicates / unknown types before writing
    addc, remc = cx.fn(CORE + 'Agent.add_component'), cx.fn(CORE + 'Agent.remove_component')
    comp = Sym(addc.params[1])
    check_keyed_insert(cx, addc.qualname, CLOC, Attr(Sym(addc.params[0]), 'components'), App('type', (comp,)), comp)
    check_keyed_delete(cx, remc.qualname, CLOC, Attr(Sym(remc.params[0]), 'components'), Sym(remc.params[1]))
    from .common import check_no_stateful_memo
    check_no_stateful_memo(cx)
    from .common import check_overrides_forward
    check_overrides_forward(cx, CORE + 'Agent', ['add_component', 'remove_component', 'get_component', '__getitem__'])
    from .common import include_premises
    include_premises(cx, ['C04'], 'the listings mirror the resident agents only if residency itself is kept by add_agent / remove_agent alone',
                     only=lambda o: o.rule in ('R-DISC', 'R-ATOMIC') and ('agents' in o.key or o.function.endswith('.add_agent') or
                                                                         o.function.endswith('.remove_agent')))

