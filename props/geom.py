"""Helpers for the geometry properties (C08, C09, C10, C12): axis tables, min/max expansion, extent domain."""
from __future__ import annotations

from fractions import Fraction
from itertools import permutations
from typing import List, Optional, Tuple

from sa.terms import (Term, Sym, Attr, Sub, App, Num, Poly, ACmp, f_and, f_or, f_not, mk_cmp, to_mons, from_mons, add, sub, neg,
                      Formula, FTrue)

AXES = [('x', 'width', 0), ('y', 'height', 1), ('z', 'depth', 2)]
ZERO = Num(Fraction(0))
ONE = Num(Fraction(1))


def positive(E: Term) -> Formula:
    return mk_cmp(E, '>=', ONE)


def extent_domain(E: Term) -> Formula:
    """Extents are 0 or >= 1 (the property's quantifier)."""
    return f_or(mk_cmp(E, '==', ZERO), mk_cmp(E, '>=', ONE))


def expand_minmax(t: Term) -> Optional[Tuple[str, List[Term]]]:
    """Undo the additive normalisation of a min/max term: returns (fn, args) with t == fn(args)."""
    if isinstance(t, App) and t.fn in ('min', 'max') and not t.kw:
        return t.fn, list(t.args)
    if isinstance(t, Poly):
        mons = to_mons(t)
        cands = [(m, c) for m, c in mons.items() if len(m) == 1 and isinstance(m[0], App) and m[0].fn in ('min', 'max')
                 and c in (1, -1)]
        if len(cands) != 1:
            return None
        (m, c) = cands[0]
        rest = from_mons({k: v for k, v in mons.items() if k != m})
        inner = m[0]
        if c == 1:
            return inner.fn, [add(a, rest) for a in inner.args]
        other = 'max' if inner.fn == 'min' else 'min'
        return other, [sub(rest, a) for a in inner.args]
    return None


def match_clamp(v: Term) -> List[Tuple[Term, Term, Term, str]]:
    """Candidate readings (e, lo, hi, nesting) of v as max(min(e, hi), lo) or min(max(e, lo), hi)."""
    out = []
    mm = expand_minmax(v)
    if not mm or len(mm[1]) != 2:
        return out
    fn, args = mm
    for outer_other, inner in permutations(args):
        im = expand_minmax(inner)
        if not im or len(im[1]) != 2:
            continue
        ifn, iargs = im
        if fn == 'max' and ifn == 'min':
            for e, hi in permutations(iargs):
                out.append((e, outer_other, hi, 'max(min(e,hi),lo)'))
        if fn == 'min' and ifn == 'max':
            for e, lo in permutations(iargs):
                out.append((e, lo, outer_other, 'min(max(e,lo),hi)'))
    return out


# ---------------------------------------------------------------------------------------------- grid shape (C09/C10)
from itertools import product as _product
from sa.terms import subst_term, subst_formula, mk_minmax, mul


def layers(E: Term) -> Term:
    """Number of cell layers along an axis of extent E: max(E, 1)."""
    return mk_minmax('max', [E, ONE])


def extent_cases(self_s: Term):
    """The 2^3 cases of the extent domain: per axis either E == 0 or E >= 1.  Yields (label, term mapping, assumption)."""
    exts = [Attr(self_s, ext) for _, ext, _ in AXES]
    for bits in _product((0, 1), repeat=3):
        mapping = {}
        assume = []
        label = []
        for (ax, ext, _), E, b in zip(AXES, exts, bits):
            if b == 0:
                mapping[E] = ZERO
                label.append(f"{ext}=0")
            else:
                mapping[layers(E)] = E
                assume.append(positive(E))
                label.append(f"{ext}>=1")
        yield ', '.join(label), mapping, f_and(*assume)


def subst_case(t, mapping):
    """Apply an extent case to a term/formula: first max(E,1) -> E for positive axes, then E -> 0 for flat axes."""
    first = {k: v for k, v in mapping.items() if not isinstance(k, Attr)}
    second = {k: v for k, v in mapping.items() if isinstance(k, Attr)}
    fn = subst_formula if isinstance(t, Formula) else subst_term
    t = fn(t, first) if first else t
    t = fn(t, second) if second else t
    return t


def expected_id(self_s: Term, x: Term, y: Term, z: Term) -> Term:
    nx, ny = layers(Attr(self_s, 'width')), layers(Attr(self_s, 'height'))
    return add(add(x, mul(y, nx)), mul(z, mul(nx, ny)))
