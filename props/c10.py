"""C10 - neighbourhood queries return exactly the metric ball clipped to the grid."""
from __future__ import annotations

from fractions import Fraction

from sa.report import Cx
from sa.walker import WalkOptions, _Ctx, State
from sa.terms import (Sym, Attr, Sub, App, Num, Const, Fresh, TupleT, IfT, ATruthy, AEq, AIsInst, f_and, f_or, f_not, compare, implies,
                      mk_cmp, mk_minmax, mk_abs, add, sub, drop_literals, atoms_of)
from .common import CORE, ENV, strip_versions
from .geom import AXES, ZERO, ONE, positive, extent_domain
from .c09 import check_id_poly

PID = 'C10'
EXPLANATION = (
    "Facts are extracted separately from get_moore_neighbours and get_neumann_neighbours on their CFG paths (each loop "
    "taken once) and compared with the oracle and, through it, with each other (R-SIB). Per axis (R-GUARD + R-AXIS): "
    "under positive(extent) the loop bounds are lo = max(0, c - r), hi = min(extent, c + r + 1), otherwise (0, 1) - with "
    "integer ranges exactly [c-r, c+r] clipped to [0, extent-1]; c is component idx(axis) of the normalised centre. "
    "R-ITER: three nested ascending ranges, z outermost, x innermost (ascending cell order). Append discipline: the "
    "disjunction over paths of the conditions under which the visited cell is appended (exactly once per visit) equals "
    "`not centre or incl_center` (Moore) resp. `|dx|+|dy|+|dz| <= r and (not centre or incl_center)` (von Neumann), "
    "compared over order regions in the integer domain (`< r+1` is the same atom). Representation: tuple form yields "
    "(x, y, z); id form applies the id function with the cell table's strides (shared with C09); other ret_type raises "
    "TypeError. Centre normalisation and the dispatch of get_neighbours are checked as forwarding facts.")
EXPLANATION += (" Premise: C09's extents-fixed-after-construction rules.")
ASSUMPTIONS = ["non-wrapping grid worlds (property scope)", "in-grid centres are non-negative, so int() truncation is floor",
               "extents are 0 or >= 1; radius is a non-negative integer"]

DW = ENV + 'DiscreteWorld'


def run(cx: Cx):
    for name, manhattan in (('get_moore_neighbours', False), ('get_neumann_neighbours', True)):
        _check_query(cx, cx.fn(f"{DW}.{name}"), manhattan)
    _check_centre(cx)
    _check_dispatch(cx)
    from .common import check_overrides_forward
    check_overrides_forward(cx, DW, ['get_moore_neighbours', 'get_neumann_neighbours', 'get_neighbours', '_get_cell_pos_as_tuple'])
    from .common import check_pure, check_result_fresh
    for name in ('get_moore_neighbours', 'get_neumann_neighbours', 'get_neighbours', '_get_cell_pos_as_tuple'):
        check_pure(cx, f"{DW}.{name}")
    for name in ('get_moore_neighbours', 'get_neumann_neighbours'):
        check_result_fresh(cx, f"{DW}.{name}")
    from .common import include_premises
    include_premises(cx, ['C09'], 'the ball is clipped to the extents the world was built with: nothing rewrites them afterwards',
                     only=lambda o: 'fixed-after-construction' in o.key or 'cell-table-rebuilt' in o.key)
    from .common import check_no_stateful_memo
    check_no_stateful_memo(cx)


def _check_query(cx: Cx, fn, manhattan: bool):
    self_s = Sym(fn.params[0])
    pn = fn.params
    cell_pos, radius, incl, ret_type = (Sym(n) for n in pn[1:5])
    dom = f_and(*[extent_domain(Attr(self_s, ext)) for _, ext, _ in AXES])
    paths = cx.walker.paths(fn, WalkOptions(unroll=1, domain='int', callee_raises=False))
    full = []
    for p in paths:
        # (a loop over a display written in place - the three axes - is straight-line code spelled as a loop, not a cell loop)
        iters = [e for e in p.events if e.kind == 'iter' and e.data['info'].get('kind') != 'literal']
        if len(iters) == 3 and p.end != 'raise':
            full.append((p, iters))
    cx.floor(f"{fn.name}: paths through all three loops", len(full), 1)
    if not full:
        return
    for p in paths:
        if p.end == 'return' and not [e for e in p.events if e.kind == 'loop' and not e.loops and not e.data.get('literal')]:
            cx.violation('R-ITER', fn.qualname, 'every-answer-visits-the-clipped-ball',
                         f"{fn.name} returns on a path [{p.cond!r}] without running the three cell loops: cells (or the centre when "
                         f"incl_center is set) are missing from that answer", where=cx.where(fn, p.last.line), path=p.lines())
            return
    # the centre term: the normalised cell_pos - or cell_pos itself on a path that established it is exactly a tuple (for which the
    # normaliser returns its argument: verified with _get_cell_pos_as_tuple below)
    def centre_of(p):
        for e in p.events:
            if e.kind == 'call' and any(t.name == '_get_cell_pos_as_tuple' for t in e.data.get('targets', [])):
                if e.data.get('args') == (cell_pos,):
                    return e.data.get('result')
        from sa.terms import AEq as _AEq
        for tup in (Sym('tuple'), Sym('builtins.tuple')):
            if implies(p.cond, _AEq(App('type', (cell_pos,)), tup)) is None:
                return cell_pos
        return None
    centres = {id(p): centre_of(p) for p, _ in full}
    if any(v is None for v in centres.values()):
        cx.violation('R-FWD', fn.qualname, 'centre-normalised', f"{fn.name} does not normalise cell_pos through "
                     f"_get_cell_pos_as_tuple", where=cx.where(fn))
        return
    centre = centres[id(full[0][0])]
    c = [Sub(centre, Num(Fraction(i))) for i in range(3)]
    reported = set()

    def viol(rule, missing, msg, where, **kw):
        if missing in reported:
            return
        reported.add(missing)
        cx.violation(rule, fn.qualname, missing, msg, where=where, **kw)

    tuple_paths = []
    n_bounds = 0
    for p, iters in full:
        c = [Sub(centres[id(p)], Num(Fraction(i))) for i in range(3)]
        is_tuple = implies(p.cond, AEq_type(ret_type, 'tuple')) is None
        is_int = implies(p.cond, AEq_type(ret_type, 'int')) is None
        # loop variables outer -> inner
        infos = [it.data['info'] for it in iters]
        if not all(i.get('kind') == 'range' and i.get('step') == ONE for i in infos):
            viol('R-ITER', 'three-ascending-ranges', f"{fn.name}: the cell loops are not ascending range() loops", cx.where(fn, iters[0].line))
            continue
        vars_ = [i['index'] for i in infos]
        # which axis does each loop variable denote?  from the value appended on this path
        cell_loops = {it.node.lineno for it in iters}
        apps = [e for e in p.events if e.kind == 'store' and e.data.get('store') == 'append' and e.data.get('root_kind') == 'fresh'
                and cell_loops <= set(e.loops)]        # appends made while visiting a cell (not helper lists built beforehand)
        val = apps[0].data.get('args', (None,))[0] if apps else None
        if is_tuple:
            tuple_paths.append((p, iters, vars_, apps))
        # axis assignment by nesting: z outermost, y, x innermost (R-ITER); verified against the tuple form below
        vz, vy, vx = vars_
        by_axis = {'x': (vx, infos[2]), 'y': (vy, infos[1]), 'z': (vz, infos[0])}
        if is_tuple and val is not None and val != TupleT((vx, vy, vz)):
            viol('R-ITER', 'tuple-form-is-x-y-z-with-x-innermost',
                 f"{fn.name}: the coordinate form yields {val!r}; with loops nested z > y > x it must be (x, y, z) so that "
                 f"cells come in ascending id order", cx.where(fn, apps[0].line), path=p.lines())
            continue
        if is_int and val is not None:
            key = 'id-form'
            if 'id-form-bad' not in reported:
                # the helper that computes the id is a nested function; name the construct after it
                construct = fn.qualname
                for e in p.events:
                    if e.kind == 'call' and e.data.get('expr') is not None and any('if_int' in t.qualname for t in e.data.get('targets', [])):
                        construct = [t.qualname for t in e.data['targets'] if 'if_int' in t.qualname][0]
                okid = check_id_poly(cx, fn, val, self_s, vx, vy, vz, cx.where(fn, apps[0].line), construct, f"{fn.name} (id form)",
                                     cond=p.cond, quiet=key in reported)
                reported.add(key if okid else 'id-form-bad')
        # bounds per axis
        for (ax, ext, i) in AXES:
            v, info = by_axis[ax]
            E = Attr(self_s, ext)
            pos = implies(p.cond, positive(E), assume=dom, domain='int') is None
            flat = implies(p.cond, f_not(positive(E)), assume=dom, domain='int') is None
            lo, hi = info['lo'], info['hi']
            if not pos and not flat and (isinstance(lo, IfT) or isinstance(hi, IfT)):
                # the bound itself is a conditional expression on the extent: judge it in both extent cases
                okc = True
                for case_pos in (True, False):
                    asm = positive(E) if case_pos else f_not(positive(E))
                    l2, h2 = _resolve_ift(lo, asm, dom), _resolve_ift(hi, asm, dom)
                    if case_pos:
                        w_lo, w_hi = mk_minmax('max', [ZERO, sub(c[i], radius)]), mk_minmax('min', [E, add(add(c[i], radius), ONE)])
                    else:
                        w_lo, w_hi = ZERO, ONE
                    n_bounds += 1
                    if (l2, h2) != (w_lo, w_hi):
                        okc = False
                        viol('R-GUARD', f"{ax}-bounds-clip-the-ball-to-the-grid",
                             f"{fn.name}: with {ext} {'positive' if case_pos else 'zero'} the {ax} loop runs over range({l2!r}, {h2!r}); the "
                             f"ball [c-r, c+r] clipped to the grid is range({w_lo!r}, {w_hi!r})", cx.where(fn, iters[0].line), path=p.lines())
                continue
            if pos:
                wlo = mk_minmax('max', [ZERO, sub(c[i], radius)])
                whi = mk_minmax('min', [E, add(add(c[i], radius), ONE)])
            elif flat:
                wlo, whi = ZERO, ONE
            else:
                viol('R-GUARD', f"{ax}-bounds-decided-by-positive-{ext}", f"{fn.name}: a path does not decide whether {ext} is "
                     f"positive before looping over {ax}", cx.where(fn, iters[0].line))
                continue
            n_bounds += 1
            if (lo, hi) != (wlo, whi) and (lo, hi) != (_under(wlo, p.cond, dom), _under(whi, p.cond, dom)):
                viol('R-GUARD', f"{ax}-bounds-clip-the-ball-to-the-grid",
                     f"{fn.name}: with {ext} {'positive' if pos else 'zero'} the {ax} loop runs over range({lo!r}, {hi!r}); the "
                     f"ball [c-r, c+r] clipped to the grid is range({wlo!r}, {whi!r})", cx.where(fn, iters[0].line),
                     found=f"range({lo!r}, {hi!r})", expected=f"range({wlo!r}, {whi!r})", path=p.lines())
    cx.floor(f"{fn.name}: axis bounds examined", n_bounds, 6)
    if not any(k.endswith('bounds-clip-the-ball-to-the-grid') or k.startswith('three') for k in reported):
        cx.ok('R-GUARD', f"{fn.name}: per-axis bounds == [c-r, c+r] clipped to the grid, z>y>x nesting", where=cx.where(fn),
              function=fn.qualname, paths=len(full))

    # ---------------- append discipline (evaluated on the tuple-form paths of one extent case: all positive)
    sample = [t for t in tuple_paths]
    if not sample:
        cx.inconclusive('R-GUARD', f"{fn.name} append discipline", 'no coordinate-form path through all loops', where=cx.where(fn),
                        function=fn.qualname)
        return
    # group by extent case so that each group covers the inner decision completely
    groups = {}
    for p, iters, vars_, apps in sample:
        outer = f_and(*[e.data['formula'] for e in p.events if e.kind == 'cond' and not e.loops])
        groups.setdefault(repr(outer), []).append((p, iters, vars_, apps))
    checked = 0
    for key, grp in groups.items():
        appended = []
        bad_multi = None
        for p, iters, vars_, apps in grp:
            cl_ = {it.node.lineno for it in iters}
            inner = [e for e in p.events if e.kind == 'cond' and cl_ <= set(e.loops)]      # also inside a `for v in (expr,)` binding
            F = f_and(*[e.data['formula'] for e in inner])
            if len(apps) > 1:
                bad_multi = (p, apps)
            if apps:
                appended.append(F)
        vz, vy, vx = grp[0][2]
        c = [Sub(centres[id(grp[0][0])], Num(Fraction(i))) for i in range(3)]
        if bad_multi:
            viol('R-GUARD', 'cell-appended-at-most-once', f"{fn.name}: a visited cell is appended {len(bad_multi[1])} times on one "
                 f"path", cx.where(fn, bad_multi[1][1].line), path=bad_multi[0].lines())
            continue
        A = f_or(*appended)
        is_centre = f_and(mk_cmp(c[0], '==', vx), mk_cmp(c[1], '==', vy), mk_cmp(c[2], '==', vz))
        want = f_or(f_not(is_centre), ATruthy(incl))
        if manhattan:
            dist = add(add(mk_abs(sub(vx, c[0])), mk_abs(sub(vy, c[1]))), mk_abs(sub(vz, c[2])))
            want = f_and(mk_cmp(dist, '<=', radius), want)
        cex = compare(A, want, domain='int')
        checked += 1
        if cex is not None:
            show = {a: b for a, b in cex.items() if not a.startswith('_')}
            viol('R-GUARD', 'appends-exactly-the-ball-minus-optional-centre',
                 f"{fn.name}: a visited cell is appended under [{A!r}] but must be appended exactly under [{want!r}]; they differ "
                 f"at {show} (code appends: {cex['_left']})", cx.where(fn), found=repr(A), expected=repr(want), counterexample=cex)
    if checked and 'appends-exactly-the-ball-minus-optional-centre' not in reported and 'cell-appended-at-most-once' not in reported:
        cx.ok('R-GUARD', f"{fn.name}: append condition == {'Manhattan ball and ' if manhattan else ''}(not centre or incl_center), once per cell",
              where=cx.where(fn), function=fn.qualname, extent_cases=checked)

    # ---------------- unknown ret_type raises TypeError; result is the fresh list
    bad_type = [p for p in paths if implies(p.cond, f_and(f_not(AEq_type(ret_type, 'int')), f_not(AEq_type(ret_type, 'tuple')))) is None]
    if bad_type and all(p.end == 'raise' and p.last.data.get('exc') == 'TypeError' for p in bad_type):
        cx.ok('R-GUARD', f"{fn.name}: unsupported ret_type raises TypeError", where=cx.where(fn), function=fn.qualname)
    else:
        viol('R-GUARD', 'unsupported-ret_type-raises-TypeError', f"{fn.name}: an unsupported ret_type does not raise TypeError",
             cx.where(fn))
    def _cell_apps(p, iters):
        cl = {it.node.lineno for it in iters}
        return [e for e in p.events if e.kind == 'store' and e.data.get('store') == 'append' and cl <= set(e.loops)]
    with_apps = [(p, iters) for p, iters in full if _cell_apps(p, iters)]
    for p, iters in with_apps[:1]:
        v = p.last.data.get('value') if p.end == 'return' else None
        apps = _cell_apps(p, iters)
        if not (isinstance(v, Fresh) and apps and strip_versions(apps[0].data.get('target')) == v):
            viol('R-FRESH', 'returns-the-collected-list', f"{fn.name} returns {v!r}, not the list it collected", cx.where(fn))


def _under(t, F, dom):
    """max(a, b) / min(a, b) on a path whose condition already orders a and b is the selected operand (a clamp written as
    statements - `lo = c - r; if not lo > 0: lo = 0` - yields one operand per path)."""
    from .geom import expand_minmax
    mm = expand_minmax(t)
    if mm is None:
        return t
    fn_, args = mm
    if len(args) != 2:
        return t
    a, b = args
    try:
        if implies(F, mk_cmp(a, '>=', b), assume=dom, domain='int') is None:
            return a if fn_ == 'max' else b
        if implies(F, mk_cmp(b, '>=', a), assume=dom, domain='int') is None:
            return b if fn_ == 'max' else a
    except Exception:
        pass
    return t


def _resolve_ift(t, assumption, dom):
    """Pick the arm of a conditional term that applies under `assumption`."""
    from sa.terms import IfT as _IfT
    if isinstance(t, _IfT):
        if implies(assumption, t.cond, assume=dom, domain='int') is None:
            return _resolve_ift(t.a, assumption, dom)
        if implies(assumption, f_not(t.cond), assume=dom, domain='int') is None:
            return _resolve_ift(t.b, assumption, dom)
    return t


def AEq_type(t, name):
    return mk_cmp(t, '==', Sym(name))


def _check_centre(cx: Cx):
    gp = cx.fn(DW + '._get_cell_pos_as_tuple')
    ps, cp = Sym(gp.params[0]), Sym(gp.params[1])
    seen = set()
    for p in cx.walker.paths(gp, WalkOptions(unroll=1)):
        v = p.last.data.get('value') if p.end == 'return' else None
        c = p.cond
        where = cx.where(gp, p.last.line if p.last else None)
        if implies(c, AIsInst(cp, Sym('int'))) is None:
            seen.add('int')
            want = Sub(Sub(Attr(ps, 'cells'), Const('pos')), cp)
            from .geom import layers
            from sa.terms import mul as _mul
            nx, ny = layers(Attr(ps, 'width')), layers(Attr(ps, 'height'))
            inverse = TupleT((App('%', (cp, nx)), App('%', (App('//', (cp, nx)), ny)), App('//', (cp, _mul(nx, ny)))))
            if v == want or v == inverse:
                cx.ok('R-FWD', "cell-id centre -> row id of the 'pos' column", where=where, function=gp.qualname)
            else:
                cx.violation('R-FWD', gp.qualname, 'id-centre-through-the-position-table',
                             f"a cell-id centre becomes {v!r}; it must be read from the world's own position table, cells['pos'][id] "
                             f"(any re-derived inverse must agree with the table on non-cubic and degenerate shapes)", where=where)
        elif implies(c, AIsInst(cp, Sym('tuple'))) is None:
            seen.add('tuple')
            if v == cp:
                cx.ok('R-FWD', 'centre given as coordinates is used as is', where=where, function=gp.qualname)
            else:
                cx.violation('R-FWD', gp.qualname, 'tuple-centre-unchanged', f"a coordinate-tuple centre becomes {v!r}", where=where)
        elif implies(c, AIsInst(cp, Sym(ENV + 'PositionComponent'))) is None:
            seen.add('pc')
            want = TupleT(tuple(App('int', (Attr(cp, ax),)) for ax, _, _ in AXES))
            if v == want:
                cx.ok('R-FWD', 'position-component centre -> (int(x), int(y), int(z))', where=where, function=gp.qualname)
            else:
                cx.violation('R-FWD', gp.qualname, 'position-centre-is-int-x-y-z',
                             f"a PositionComponent centre becomes {v!r}; expected {want!r} (axes in order, truncated to the cell)",
                             where=where)
        else:
            seen.add('other')
            if not (p.end == 'raise' and p.last.data.get('exc') == 'TypeError'):
                cx.violation('R-FWD', gp.qualname, 'other-centre-types-raise-TypeError',
                             "an unsupported centre representation does not raise TypeError", where=where)
    if seen >= {'int', 'tuple', 'pc', 'other'}:
        cx.ok('R-FWD', 'centre normalisation covers int / tuple / PositionComponent / TypeError', where=cx.where(gp), function=gp.qualname)
    else:
        cx.inconclusive('R-FWD', '_get_cell_pos_as_tuple', f"branches found: {sorted(seen)}", where=cx.where(gp), function=gp.qualname)


def _check_dispatch(cx: Cx):
    fn = cx.fn(DW + '.get_neighbours')
    self_s = Sym(fn.params[0])
    mode = Sym('mode')
    table = {'moore': DW + '.get_moore_neighbours', 'neumann': DW + '.get_neumann_neighbours'}
    ok = set()
    ps = cx.walker.paths(fn, WalkOptions(unroll=1, callee_raises=False))
    for p in ps:
        if p.end == 'return' and not any(implies(p.cond, mk_cmp(mode, '==', Const(k))) is None for k in table):
            cx.violation('R-FWD', fn.qualname, 'every-answer-comes-from-the-modes-own-query',
                         f"get_neighbours returns on a path [{p.cond!r}] that has not established which mode was asked for: the "
                         f"answer does not come from that mode's query (a shortcut valid for one metric is wrong for the other)",
                         where=cx.where(fn, p.last.line), path=p.lines())
            return
        for key, target in table.items():
            if implies(p.cond, mk_cmp(mode, '==', Const(key))) is None:
                calls = [e for e in p.events if e.kind == 'call' and any(t.qualname == target for t in e.data.get('targets', []))]
                tfn = cx.fn(target)
                good = False
                if len(calls) == 1 and p.end == 'return' and p.last.data.get('value') == calls[0].data.get('result'):
                    b = _Ctx(cx.walker, fn, WalkOptions()).bind_args(tfn, calls[0].data.get('recv'), list(calls[0].data.get('args', ())),
                                                                    dict(calls[0].data.get('kw', ())), State(), True)
                    good = bool(b) and b.get(tfn.params[0]) == self_s and all(b.get(n) == Sym(n) for n in tfn.params[1:5])
                if good:
                    ok.add(key)
                    cx.ok('R-FWD', f"get_neighbours('{key}') -> {target.split('.')[-1]} with arguments forwarded by name",
                          where=cx.where(fn, calls[0].line), function=fn.qualname)
                else:
                    cx.violation('R-FWD', fn.qualname, f"mode-{key}-dispatch",
                                 f"get_neighbours: mode '{key}' must return {target.split('.')[-1]}(cell_pos, radius, incl_center, "
                                 f"ret_type) with each argument forwarded to its own parameter", where=cx.where(fn), path=p.lines())
        if implies(p.cond, f_and(*[f_not(mk_cmp(mode, '==', Const(k))) for k in table])) is None:
            if p.end == 'raise' and p.last.data.get('exc') == 'KeyError':
                ok.add('else')
            else:
                cx.violation('R-FWD', fn.qualname, 'unknown-mode-raises-KeyError', "get_neighbours: an unknown mode does not raise KeyError",
                             where=cx.where(fn))
    if not ok >= {'moore', 'neumann', 'else'}:
        if not any(o.verdict == 'violation' and o.function == fn.qualname for o in cx.obs):
            cx.inconclusive('R-FWD', 'get_neighbours dispatch', f"arms found: {sorted(ok)}", where=cx.where(fn), function=fn.qualname)
