"""C12 - positional queries return exactly the agents inside the leeway box."""
from __future__ import annotations

import ast

from sa.report import Cx
from sa.walker import WalkOptions
from sa.terms import (Sym, Attr, Sub, App, Fresh, f_and, compare, mk_cmp, mk_minmax, add, sub, term_symbols, atoms_of, ACmp)
from .common import CORE, ENV, check_pure, order_class, strip_versions
from .geom import AXES

PID = 'C12'
EXPLANATION = (
    "R-GUARD: the filter condition of get_agents_at - read off the returned comprehension after copy propagation of the "
    "per-axis bounds and min/max algebra (min(p-a, p-l) = p - max(a, l)) - is compared, over the order regions of its "
    "six difference terms, with the conjunction over the axes of p - max(leeway, axis_leeway) <= pos_axis <= "
    "p + max(leeway, axis_leeway) (closed on both sides). R-AXIS is part of that oracle (x uses x_pos/x_leeway/.x ...). "
    "R-ITER + R-FRESH: the result is a fresh list built by an order-preserving comprehension over Environment.agents, "
    "yielding the agent of each key; the query writes nothing. Seam clause: a necessary condition for measuring "
    "distance around the seam of a wrapping world is that the function reads wrap_env and the extents.")
EXPLANATION += (' get_agents_at has no raise statement of its own (an empty box answers []).')
EXPLANATION += (' A path that returns every agent unfiltered is a violation.')
EXPLANATION += (" Premises: C04's residency rules for add_agent / remove_agent; no class-level alias captures them.")
ASSUMPTIONS = ["float rounding at box faces is not decided", "dict preserves insertion order"]

PC = ENV + 'PositionComponent'


def run(cx: Cx):
    fn = cx.fn(ENV + 'SpaceWorld.get_agents_at')
    self_s = Sym(fn.params[0])
    agents = Attr(self_s, 'agents')
    ps = [p for p in cx.walker.paths(fn, WalkOptions(unroll=1, domain='real')) if p.end == 'return']
    cx.floor('get_agents_at returning paths', len(ps), 1)
    # every query has an answer: an empty box (negative leeways) answers [], it is not an error
    direct = [p for p in cx.walker.paths(fn, WalkOptions(unroll=1, domain='real')) if p.end == 'raise' and p.last.data.get('direct')]
    if direct:
        p0 = direct[0]
        cx.violation('R-GUARD', fn.qualname, 'every-query-is-answered',
                     f"get_agents_at raises {p0.last.data.get('exc')} under [{p0.cond!r}]: the agents inside the box are asked for, and a box "
                     f"nothing can be inside of (negative leeways) has the answer [] - it is not an error", where=cx.where(fn, p0.last.line),
                     path=p0.lines())
    else:
        cx.ok('R-GUARD', 'get_agents_at refuses no query (no raise statement of its own)', where=cx.where(fn), function=fn.qualname)
    reads = set()
    cases = []          # (agent term, membership condition, where)
    loop_groups = {}    # for results built by a loop with conditional appends: loop line -> [(agent term, cond, appended)]
    for p in ps:
        v = p.last.data.get('value')
        for c in p.conds:
            reads |= term_symbols(c)
        reads |= term_symbols(v)
        where = cx.where(fn, p.last.line)
        if isinstance(v, Fresh) and v.kind == 'listcomp' and v.detail is not None and len(v.detail.gens) == 1:
            tgt, src, conds = v.detail.gens[0]
            oc = order_class(src, agents)
            if oc == 'reordered':
                cx.violation('R-ITER', fn.qualname, 'joining-order', f"get_agents_at iterates {src!r}: not joining order", where=where)
                continue
            if oc != 'inorder':
                cx.violation('R-ITER', fn.qualname, 'filters-the-resident-agents', f"get_agents_at iterates {src!r}, not the "
                             f"environment's agents", where=where)
                continue
            if strip_versions(src) == agents:
                ag = Sub(agents, tgt)
            elif isinstance(src, App) and src.fn == '.values':
                ag = tgt
            else:
                ag = v.detail.elt
            if v.detail.elt != ag:
                cx.violation('R-FRESH', fn.qualname, 'yields-the-agent', f"get_agents_at yields {v.detail.elt!r}, not the agent {ag!r}",
                             where=where)
                continue
            if (repr(ag), repr(f_and(*conds))) not in [(repr(a), repr(b)) for a, b, _ in cases]:
                cases.append((ag, f_and(*conds), where))
            continue
        if isinstance(v, Fresh) and v.kind in ('list', 'call:list') and not v.items:
            from .common import known_empty_on
            if not any(e.kind == 'loop' for e in p.events) and known_empty_on(p.cond, agents):
                continue        # `if not self.agents: return []`: nobody lives here, the empty answer is exact
            loops = [e for e in p.events if e.kind == 'loop' and order_class(e.data.get('iter'), agents) != 'unrelated']
            if len(loops) != 1 or order_class(loops[0].data.get('iter'), agents) != 'inorder':
                cx.violation('R-ITER', fn.qualname, 'filters-the-resident-agents', f"get_agents_at does not make one in-order pass over "
                             f"the environment's agents ({[repr(l.data.get('iter')) for l in loops]})", where=where)
                continue
            lp = loops[0]
            for e in p.events:
                if e.kind == 'call' or e.kind == 'assign':
                    reads |= term_symbols(e.data.get('value')) if e.data.get('value') is not None else set()
            iters = [e for e in p.events if e.kind == 'iter' and e.node is lp.node]
            ends = [e for e in p.events if e.kind == 'endloop' and e.node is lp.node]
            if any(e.data.get('how') != 'exhausted' for e in ends):
                cx.violation('R-ITER', fn.qualname, 'every-agent-considered', "get_agents_at leaves the loop over the agents early", where=where)
                continue
            if not iters:
                continue
            it_ev = iters[0]
            nxt = p.events.index(iters[1]) if len(iters) > 1 else p.events.index(ends[-1])
            seg = p.events[p.events.index(it_ev):nxt]
            info = it_ev.data['info']
            key = info.get('var') if info.get('kind') == 'iter' else info.get('index')
            itn = strip_versions(lp.data.get('iter'))
            if info.get('kind') == 'items':
                ag = Sub(info['seq'], info['index'])
            elif isinstance(itn, App) and itn.fn == '.values':
                ag = info.get('var')
            else:
                ag = Sub(agents, key)
            F = f_and(*[e.data['formula'] for e in seg if e.kind == 'cond'])
            reads |= term_symbols(F)
            apps = [e for e in seg if e.kind == 'store' and strip_versions(e.data.get('target')) == v]
            if len(apps) > 1 or (apps and (apps[0].data.get('store') != 'append' or apps[0].data.get('args') != (ag,))):
                cx.violation('R-FRESH', fn.qualname, 'yields-the-agent', f"get_agents_at stores {[repr(a.data.get('args')) for a in apps]} for the "
                             f"agent {ag!r}: each matching agent must be appended once", where=cx.where(fn, apps[0].line))
                continue
            loop_groups.setdefault(lp.node.lineno, []).append((ag, F, bool(apps), cx.where(fn, lp.line)))
            continue
        if isinstance(v, Fresh) and v.kind in ('call:list', 'copy') and v.items and order_class(v.items[0], agents) == 'inorder':
            from .common import known_empty_on
            if known_empty_on(p.cond, agents):
                continue
            # every resident, unfiltered: whatever the path has established about the SIZE of the box says nothing about where it lies
            cx.violation('R-GUARD', fn.qualname, 'closed-leeway-box',
                         f"get_agents_at returns every agent of the environment ({v!r}) on a path [{p.cond!r}]: no agent's position is "
                         f"compared with the box, so a box of that size lying off-centre or outside the world still returns everybody",
                         where=where, path=p.lines())
            continue
        cx.inconclusive('R-FRESH', 'get_agents_at result', f"returns {v!r}: neither a list comprehension over the agents nor a list "
                        f"filled in a loop over them", where=where, function=fn.qualname)
    for line, rows in loop_groups.items():
        from sa.terms import f_or as _f_or
        ag = rows[0][0]
        A = _f_or(*[F for a, F, app, w in rows if app])
        cases.append((ag, A, rows[0][3]))
    for ag, F, where in cases:
        cx.ok('R-ITER', 'fresh list, one pass over Environment.agents in joining order, yields the agent', where=where,
              function=fn.qualname)
        pcs = Sym(PC)
        cands = [Sub(ag, pcs), Sub(Attr(ag, 'components'), pcs), App('call:' + CORE + 'Agent.get_component', (ag, pcs))]
        used = [c for c in cands if any(isinstance(s, Attr) and s.base == c for s in term_symbols(F))]
        if len(used) != 1:
            cx.violation('R-GUARD', fn.qualname, 'filters-on-the-agent-position',
                         f"the filter [{F!r}] does not read the position component of the iterated agent", where=where)
            continue
        pos = used[0]
        leeway = Sym('leeway')
        parts = []
        for ax, _, _ in AXES:
            p_a = Sym(f"{ax}_pos")
            L = mk_minmax('max', [leeway, Sym(f"{ax}_leeway")])
            parts.append(mk_cmp(sub(p_a, L), '<=', Attr(pos, ax)))
            parts.append(mk_cmp(Attr(pos, ax), '<=', add(p_a, L)))
        E = f_and(*parts)
        # the box is a conjunction of per-axis intervals: when the filter is a conjunction whose conjuncts each read one axis
        # it is compared axis by axis (same verdict, far fewer order regions)
        from sa.terms import FAnd, TooManyRegions
        cex = None
        split = None
        if isinstance(F, FAnd):
            split = {ax: [] for ax, _, _ in AXES}
            for part in F.parts:
                axs = {s.name for s in term_symbols(part) if isinstance(s, Attr) and s.base == pos and s.name in split}
                if len(axs) != 1:
                    split = None
                    break
                split[axs.pop()].append(part)
        try:
            if split is not None:
                for k, (ax, _, _) in enumerate(AXES):
                    cex = compare(f_and(*split[ax]), f_and(parts[2 * k], parts[2 * k + 1]), domain='real')
                    if cex is not None:
                        break
            else:
                cex = compare(F, E, domain='real')
        except TooManyRegions as ex:
            cx.inconclusive('R-GUARD', 'get_agents_at filter', f"the filter [{F!r}] has too many distinct comparison terms to be compared "
                            f"with the leeway box ({ex})", where=where, function=fn.qualname)
            continue
        if cex is None:
            cx.ok('R-GUARD', 'filter == closed leeway box on all three axes', where=where, function=fn.qualname, filter=repr(F))
        else:
            show = {a: b for a, b in cex.items() if not a.startswith('_')}
            cx.violation('R-GUARD', fn.qualname, 'closed-leeway-box',
                         f"get_agents_at filters with [{F!r}] but the closed leeway box is [{E!r}]; they differ at {show} "
                         f"(code keeps the agent: {cex['_left']})", where=where, found=repr(F), expected=repr(E), counterexample=cex)
    if not cases and not any(o.verdict != 'ok' for o in cx.obs):
        cx.inconclusive('R-GUARD', 'get_agents_at filter', 'no filter could be extracted', where=cx.where(fn), function=fn.qualname)
    from .common import check_result_fresh
    check_result_fresh(cx, fn.qualname)
    check_pure(cx, fn.qualname)
    from .common import check_overrides_forward
    check_overrides_forward(cx, ENV + 'SpaceWorld', ['get_agents_at'])
    # seam clause
    names = {s.name for s in reads if isinstance(s, Attr) and s.base == self_s}
    if 'wrap_env' in names and names & {'width', 'height', 'depth'}:
        cx.ok('R-GUARD', 'get_agents_at reads wrap_env and the extents (necessary for seam-aware distance)', where=cx.where(fn),
              function=fn.qualname)
    else:
        cx.violation('R-GUARD', fn.qualname, 'seam-distance-needs-wrap_env-and-extents',
                     "get_agents_at is documented to respect the toroidal mode but never reads wrap_env nor an extent: in a "
                     "wrapping world distance is not measured around the seam", where=cx.where(fn), reads=sorted(names))
    from .common import check_no_stateful_memo, include_premises
    check_no_stateful_memo(cx)
    from .common import check_overrides_forward
    check_overrides_forward(cx, fn.qualname.rsplit('.', 1)[0], ['get_agents_at'])
    # the position tested is the agent's own PositionComponent: agent[PositionComponent] is the exact-key lookup C03 verifies (a
    # look-up that also answers for subclasses, or for another key, tests some other component's coordinates)
    # the agents that are asked are the residents, each with a position: residency and placement are C04's and C08's (the deprecated
    # spelling that skips the world's add_agent leaves a resident without a position, and every later query raises)
    include_premises(cx, ['C04'], 'the query filters the residents: one agent per identifier, added by add_agent only',
                     only=lambda o: (o.function or '').endswith(('.add_agent', '.remove_agent')) and o.rule in ('R-DISC', 'R-GUARD', 'R-ATOMIC', 'R-NONE'))
    from .common import check_no_static_alias
    check_no_static_alias(cx, CORE + 'Environment', ['add_agent', 'remove_agent'])
    include_premises(cx, ['C03'], "the position tested is the agent's PositionComponent: component look-up by exact type",
                     only=lambda o: o.rule in ('R-GUARD', 'R-FWD') and ('get_component' in (o.function or '') or '__getitem__' in (o.function or '')))


