"""C12 - positional queries return exactly the agents inside the leeway box."""
from __future__ import annotations

import ast

from sa.report import Cx
from sa.walker import WalkOptions
from sa.terms import (Sym, Attr, Sub, App, Fresh, f_and, compare, mk_cmp, mk_minmax, add, sub, term_symbols, atoms_of, ACmp)
from .common import CORE, ENV, check_pure, order_class, strip_versions
from .geom import AXES

PID = 'C12'
EXPLANATION = (
    "R-GUARD: the filter condition of get_agents_at - read off the returned comprehension after copy propagation of the "
    "per-axis bounds and min/max algebra (min(p-a, p-l) = p - max(a, l)) - is compared, over the order regions of its "
    "six difference terms, with the conjunction over the axes of p - max(leeway, axis_leeway) <= pos_axis <= "
    "p + max(leeway, axis_leeway) (closed on both sides). R-AXIS is part of that oracle (x uses x_pos/x_leeway/.x ...). "
    "R-ITER + R-FRESH: the result is a fresh list built by an order-preserving comprehension over Environment.agents, "
    "yielding the agent of each key; the query writes nothing. Seam clause: a necessary condition for measuring "
    "distance around the seam of a wrapping world is that the function reads wrap_env and the extents.")
ASSUMPTIONS = ["float rounding at box faces is not decided", "dict preserves insertion order"]

PC = ENV + 'PositionComponent'


def run(cx: Cx):
    fn = cx.fn(ENV + 'SpaceWorld.get_agents_at')
    self_s = Sym(fn.params[0])
    agents = Attr(self_s, 'agents')
    ps = [p for p in cx.walker.paths(fn, WalkOptions(unroll=1, domain='real')) if p.end == 'return']
    cx.floor('get_agents_at returning paths', len(ps), 1)
    reads = set()
    for p in ps:
        v = p.last.data.get('value')
        for c in p.conds:
            reads |= term_symbols(c)
        reads |= term_symbols(v)
        where = cx.where(fn, p.last.line)
        if not (isinstance(v, Fresh) and v.kind == 'listcomp' and v.detail is not None and len(v.detail.gens) == 1):
            cx.inconclusive('R-FRESH', 'get_agents_at result', f"returns {v!r}: not a single-generator list comprehension",
                            where=where, function=fn.qualname)
            continue
        tgt, src, conds = v.detail.gens[0]
        oc = order_class(src, agents)
        if oc == 'reordered':
            cx.violation('R-ITER', fn.qualname, 'joining-order', f"get_agents_at iterates {src!r}: not joining order", where=where)
            continue
        if oc != 'inorder':
            cx.violation('R-ITER', fn.qualname, 'filters-the-resident-agents', f"get_agents_at iterates {src!r}, not the "
                         f"environment's agents", where=where)
            continue
        # the element and the agent term
        if strip_versions(src) == agents:
            ag = Sub(agents, tgt)
        elif isinstance(src, App) and src.fn == '.values':
            ag = tgt
        else:
            ag = Sub(agents, tgt) if v.detail.elt == Sub(agents, tgt) else v.detail.elt
        if v.detail.elt != ag:
            cx.violation('R-FRESH', fn.qualname, 'yields-the-agent', f"get_agents_at yields {v.detail.elt!r}, not the agent {ag!r}",
                         where=where)
            continue
        cx.ok('R-ITER', 'fresh list, one pass over Environment.agents in joining order, yields the agent', where=where,
              function=fn.qualname)
        F = f_and(*conds)
        # which term denotes the agent's position component?
        pcs = Sym(PC)
        cands = [Sub(ag, pcs), Sub(Attr(ag, 'components'), pcs), App('call:' + CORE + 'Agent.get_component', (ag, pcs))]
        used = [c for c in cands if any(isinstance(s, Attr) and s.base == c for s in term_symbols(F))]
        if len(used) != 1:
            cx.violation('R-GUARD', fn.qualname, 'filters-on-the-agent-position',
                         f"the filter [{F!r}] does not read the position component of the iterated agent", where=where)
            continue
        pos = used[0]
        leeway = Sym('leeway')
        parts = []
        for ax, _, _ in AXES:
            p_a = Sym(f"{ax}_pos")
            L = mk_minmax('max', [leeway, Sym(f"{ax}_leeway")])
            parts.append(mk_cmp(sub(p_a, L), '<=', Attr(pos, ax)))
            parts.append(mk_cmp(Attr(pos, ax), '<=', add(p_a, L)))
        E = f_and(*parts)
        cex = compare(F, E, domain='real')
        if cex is None:
            cx.ok('R-GUARD', 'filter == closed leeway box on all three axes', where=where, function=fn.qualname, filter=repr(F))
        else:
            show = {a: b for a, b in cex.items() if not a.startswith('_')}
            cx.violation('R-GUARD', fn.qualname, 'closed-leeway-box',
                         f"get_agents_at filters with [{F!r}] but the closed leeway box is [{E!r}]; they differ at {show} "
                         f"(code keeps the agent: {cex['_left']})", where=where, found=repr(F), expected=repr(E), counterexample=cex)
    check_pure(cx, fn.qualname)
    # seam clause
    names = {s.name for s in reads if isinstance(s, Attr) and s.base == self_s}
    if 'wrap_env' in names and names & {'width', 'height', 'depth'}:
        cx.ok('R-GUARD', 'get_agents_at reads wrap_env and the extents (necessary for seam-aware distance)', where=cx.where(fn),
              function=fn.qualname)
    else:
        cx.violation('R-GUARD', fn.qualname, 'seam-distance-needs-wrap_env-and-extents',
                     "get_agents_at is documented to respect the toroidal mode but never reads wrap_env nor an extent: in a "
                     "wrapping world distance is not measured around the seam", where=cx.where(fn), reads=sorted(names))
