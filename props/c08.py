"""C08 - agents stay inside the world; moves are exactly modular or saturating."""
from __future__ import annotations

from fractions import Fraction

from sa.report import Cx
from sa.walker import WalkOptions, _Ctx, State
from sa.terms import (Sym, Attr, Sub, App, Num, Const, ATruthy, f_and, f_or, f_not, implies, compare, mk_cmp, add, sub, FTrue)
from .common import CORE, ENV, check_atomic, strip_versions
from .geom import AXES, ZERO, ONE, positive, extent_domain, match_clamp

PID = 'C08'
EXPLANATION = (
    "R-DISC + R-BOUND on every package store to PositionComponent.x/y/z (enumerated each run): the stored term, read "
    "off the CFG path with copy propagation, must be (a) in the wrapping branch (old_axis + delta_axis) % extent_axis "
    "under a dominating positivity test of that extent - hence inside [0, extent) - and present whenever the extent "
    "can be positive; (b) in the other branch the clamp of old_axis + delta_axis to [0, extent_axis - offset] in either "
    "nesting; (c) in move_to and add_agent the request parameter itself, on paths whose condition equals - compared over "
    "the order regions of the coordinates and extents, extents in {0} U [1,inf) - the conjunction over the axes of "
    "(0 <= v <= extent - offset or extent not positive). The offset is the single-assignment value of _index_offset: 0 "
    "for SpaceWorld, 1 for DiscreteWorld. R-AXIS: x uses width and the x parameter, y height, z depth. R-ATOMIC: "
    "rejected move_to / add_agent / moves of agents without a position write nothing. R-PAIR: leaving the world "
    "detaches the position. Decides containment and exactness symbolically for all extents and histories; not "
    "floating-point rounding inside the bounds.")
EXPLANATION += (' wrap_env is forwarded unchanged by every world subclass constructor and stored as given; clamps written as statements or conditional expressions have the min/max normal form; a removal path that found no PositionComponent on the leaving agent has nothing to detach.')
EXPLANATION += (' Coordinates and offsets are never passed to a function that converts to a C double (math.* except floor / ceil / trunc, float()).')
EXPLANATION += (" Premise: C03's accessor, join / leave and registration rules.")
ASSUMPTIONS = ["extents are 0 or >= 1 and finite; grid coordinates are integers (quantifier)",
               "Python's % with positive modulus lies in [0, modulus) for ints and [0, modulus] for floats",
               "user code does not write position fields directly"]

PC = ENV + 'PositionComponent'
SW = ENV + 'SpaceWorld'


def _dom(self_s):
    return f_and(*[extent_domain(Attr(self_s, ext)) for _, ext, _ in AXES])


def run(cx: Cx):
    prog = cx.prog
    pc = prog.cls(PC)
    sw = prog.cls(SW)
    move = cx.fn(SW + '.move')
    move_to = cx.fn(SW + '.move_to')
    add_agent = cx.fn(SW + '.add_agent')
    rem_agent = cx.fn(SW + '.remove_agent')
    pinit = cx.fn(PC + '.__init__')

    # ------------------------------------------------------------ offsets: 0 continuous, 1 grid
    osites = cx.effects.sites_of((SW, '_index_offset'))
    want = {SW + '.__init__': Num(Fraction(0)), ENV + 'DiscreteWorld.__init__': Num(Fraction(1))}
    got = {}
    for s in osites:
        q = s.owner_q
        v = s.ev.data.get('value')
        if q in want and s.kind == 'rebind' and v == want[q]:
            got[q] = True
            cx.ok('R-DISC', f"{q.split('.')[-2]}._index_offset == {v!r}", where=s.where, function=q)
        else:
            cx.violation('R-DISC', q, 'index-offset-0-continuous-1-grid',
                         f"{s.describe()}: the inclusive-edge offset must be the constant 0 in SpaceWorld and 1 in "
                         f"DiscreteWorld, written only by those constructors (found {v!r})", where=s.where)
    for q in want:
        if q not in got:
            cx.violation('R-DISC', q, 'index-offset-0-continuous-1-grid', f"{q} no longer sets _index_offset to {want[q]!r}",
                         where=cx.where(cx.fn(q)))
    # DiscreteWorld must set its offset after the base constructor (which resets it to 0)
    dinit = cx.fn(ENV + 'DiscreteWorld.__init__')
    for p in cx.walker.paths(dinit, WalkOptions(unroll=0, callee_raises=False)):
        if p.end == 'raise':
            continue
        sup = [i for i, e in enumerate(p.events) if e.kind == 'call' and e.data.get('via') == 'super']
        off = [i for i, e in enumerate(p.events) if e.kind == 'store' and e.data.get('attr') == '_index_offset']
        if sup and off and off[-1] < sup[0]:
            cx.violation('R-ORDER', dinit.qualname, 'offset-set-after-base-constructor',
                         "DiscreteWorld.__init__ sets _index_offset before super().__init__, which resets it to 0",
                         where=cx.where(dinit))

    # coordinates and offsets are touched through comparisons and exact arithmetic only: a library function that converts to a C
    # double first (math.isnan / isfinite / isclose / fmod, float()) raises OverflowError for a far out-of-range integer and rounds
    # a large one - the move is refused or lands elsewhere
    from sa.terms import term_symbols
    n_fl = 0
    for fq in (add_agent, move, move_to):
        coords = {Sym(q) for q in fq.params[2:] + fq.kwonly}
        hit = None
        for p in cx.walker.paths(fq, WalkOptions(unroll=0, callee_raises=False)):
            for e in p.events:
                if e.kind != 'call':
                    continue
                nm = str(e.data.get('callee_name', ''))
                if not ((nm.startswith('math.') and nm not in ('math.floor', 'math.ceil', 'math.trunc')) or nm == 'builtins.float'):
                    continue
                n_fl += 1
                if any(coords & set(term_symbols(a)) for a in e.data.get('args', ())):
                    hit = hit or (e, nm)
        if hit:
            cx.violation('R-GUARD', fq.qualname, 'coordinates-stay-exact',
                         f"{fq.qualname} passes a coordinate / offset argument to {hit[1]}(), which converts it to a C double first: an "
                         f"integer of magnitude >= 2**1024 raises OverflowError (the legal move is refused) and one above 2**53 is rounded",
                         where=cx.where(fq, hit[0].line))
    if not any(o.key.endswith('coordinates-stay-exact') for o in cx.violations()):
        cx.ok('R-GUARD', f"placements and moves never force a coordinate through a C double ({n_fl} math / float call(s) examined)",
              where=cx.where(move), function=move.qualname)

    # PositionComponent.__init__ stores its parameters
    for p in cx.walker.paths(pinit, WalkOptions(unroll=1)):
        for ax, _, _ in AXES:
            st = [e for e in p.events if e.kind == 'store' and e.data.get('attr') == ax]
            if len(st) == 1 and st[0].data.get('value') == Sym(ax):
                cx.ok('R-FWD', f"PositionComponent.{ax} := parameter {ax}", where=cx.where(pinit, st[0].line), function=pinit.qualname)
            else:
                cx.violation('R-FWD', pinit.qualname, f"{ax}-field-from-parameter",
                             f"PositionComponent.__init__ does not store parameter '{ax}' in field '{ax}'", where=cx.where(pinit))

    # ------------------------------------------------------------ every position write site is one we verify below
    verified = {move.qualname, move_to.qualname, pinit.qualname}
    n_sites = 0
    for ax, _, _ in AXES:
        for s in cx.effects.sites_of((PC, ax)):
            n_sites += 1
            if not s.owned_within(verified):
                cx.violation('R-BOUND', s.fn.qualname, f"unbounded-position-write-{ax}",
                             f"{s.describe()}: a position field is written outside move/move_to/the constructor; its value "
                             f"is not bounded by the world's extents", where=s.where)
    cx.floor('position write sites', n_sites, 12)
    # every construction of a PositionComponent in the package is the verified placement
    n_ctor = 0
    for k, calls in cx.effects.calls.items():
        for c in calls:
            if c.data.get('via') == 'ctor' and c.data.get('ctor_class') is not None and c.data['ctor_class'].qualname == PC:
                n_ctor += 1
                f = prog.functions.get(k)
                # a private helper that only add_agent reaches is part of add_agent (walked inline by the placement rule)
                if k != add_agent.qualname and (f is None or cx.effects.public_roots(f) != {add_agent.qualname}):
                    cx.violation('R-BOUND', k, 'unverified-position-construction',
                                 f"{k} constructs a PositionComponent outside SpaceWorld.add_agent's verified placement: its coordinates "
                                 f"are not bounded by the world's extents", where=cx.where(f, c.line) if f else '')
    cx.floor('PositionComponent construction sites', n_ctor, 1)

    # ------------------------------------------------------------ move
    self_s = Sym(move.params[0])
    agent_s = Sym(move.params[1])
    dom = _dom(self_s)
    wrap_t = ATruthy(Attr(self_s, 'wrap_env'))
    off = Attr(self_s, '_index_offset')
    n_wrap = n_clamp = 0
    for p in cx.walker.paths(move, WalkOptions(unroll=1, domain='real')):
        if p.end == 'raise':
            continue
        is_wrap = implies(p.cond, wrap_t) is None
        is_clamp = implies(p.cond, f_not(wrap_t)) is None
        if not (is_wrap or is_clamp):
            cx.inconclusive('R-GUARD', 'SpaceWorld.move', f"a path does not decide wrap_env: {p.cond!r}", where=cx.where(move),
                            function=move.qualname)
            continue
        for ax, ext, _ in AXES:
            E = Attr(self_s, ext)
            delta = Sym(ax) if ax in move.params else None
            st = [e for e in p.events if e.kind == 'store' and e.data.get('loc') == (PC, ax)]
            where = cx.where(move, st[0].line if st else None)
            if len(st) > 1:
                cx.violation('R-DISC', move.qualname, f"{ax}-written-once", f"move writes {ax} {len(st)} times on one path",
                             where=where, path=p.lines())
                continue
            can_be_positive = implies(p.cond, f_not(positive(E)), assume=dom, domain='real') is not None
            if not st:
                if can_be_positive:
                    cx.violation('R-BOUND', move.qualname, f"{ax}-moved-when-extent-positive",
                                 f"move ({'wrap' if is_wrap else 'clamp'} branch): no store to {ax} although {ext} can be "
                                 f"positive on this path ({p.cond!r})", where=cx.where(move), path=p.lines())
                continue
            e = st[0]
            comp = e.data.get('base')
            v = e.data.get('value')
            # the old coordinate is the same field of the same component, read before the store
            old = Attr(comp, ax)
            target = add(old, delta)
            if is_wrap:
                n_wrap += 1
                if v != App('%', (target, E)):
                    cx.violation('R-GUARD', move.qualname, f"wrap-{ax}-is-old-plus-delta-mod-{ext}",
                                 f"move (wrapping): {ax} is set to {v!r}; exact modular motion requires "
                                 f"({target!r}) % {E!r}", where=where, path=p.lines(), found=repr(v))
                    continue
                if implies(p.cond, positive(E), assume=dom, domain='real') is not None:
                    cx.violation('R-BOUND', move.qualname, f"wrap-{ax}-dominated-by-positive-{ext}",
                                 f"move (wrapping): '% {ext}' on {ax} is not dominated by a test that {ext} is positive",
                                 where=where, path=p.lines())
                    continue
                cx.ok('R-BOUND', f"wrap {ax}: (old+delta) % {ext} under positive {ext} => [0, {ext})", where=where,
                      function=move.qualname)
            else:
                n_clamp += 1
                want_hi = sub(E, off)
                from sa import terms as _T
                n0 = len(_T.CANCEL_LOG)
                cands = match_clamp(v)
                cancelled = [m for m in _T.CANCEL_LOG[n0:] if any(old == y for y in m)]
                good = [c for c in cands if c[0] == target and c[1] == ZERO and c[2] == want_hi]
                if good and cancelled:
                    # old + (hi - old): equal to hi over the reals, but in floating point the sum can land one ulp beyond (or short
                    # of) the edge - the bound itself has to be what is stored
                    cx.violation('R-BOUND', move.qualname, f"clamp-{ax}-stores-the-bound-itself",
                                 f"move (saturating): {ax} is set to {v!r}, which reaches the edge as old + (edge - old); in floating point "
                                 f"that need not equal the edge, so an overshooting move can leave the agent just outside [0, {ext}-offset]; "
                                 f"store max(min({target!r}, {want_hi!r}), 0)", where=where, path=p.lines())
                elif good:
                    cx.ok('R-BOUND', f"clamp {ax}: {good[0][3]} with lo=0, hi={ext}-offset => [0, {ext}-offset]", where=where,
                          function=move.qualname)
                else:
                    cx.violation('R-GUARD', move.qualname, f"clamp-{ax}-to-0-and-{ext}-minus-offset",
                                 f"move (saturating): {ax} is set to {v!r}; exact saturation requires "
                                 f"max(min({target!r}, {want_hi!r}), 0)", where=where, path=p.lines(), found=repr(v),
                                 readings=[repr(c[:3]) for c in cands])
    cx.floor('wrap-branch stores verified', n_wrap, 3)
    cx.floor('clamp-branch stores verified', n_clamp, 3)

    # ------------------------------------------------------------ move_to
    mself = Sym(move_to.params[0])
    moff = Attr(mself, '_index_offset')
    mdom = _dom(mself)
    succ = []
    for p in cx.walker.paths(move_to, WalkOptions(unroll=1, domain='real')):
        if p.end == 'raise':
            continue
        succ.append(p)
        for ax, ext, _ in AXES:
            st = [e for e in p.events if e.kind == 'store' and e.data.get('loc') == (PC, ax)]
            if len(st) == 1 and st[0].data.get('value') == Sym(ax):
                cx.ok('R-GUARD', f"move_to: {ax} := requested {ax}", where=cx.where(move_to, st[0].line), function=move_to.qualname)
            else:
                cx.violation('R-GUARD', move_to.qualname, f"{ax}-set-to-request",
                             f"move_to: an accepted move must set {ax} exactly to the requested value (found "
                             f"{[repr(e.data.get('value')) for e in st]})", where=cx.where(move_to), path=p.lines())
    if succ:
        has_pc = _has_position(succ[0], move_to)
        S = f_or(*[p.cond for p in succ])
        S = _drop_atoms(S, has_pc)
        r = compare_inside(S, mself, {ax: Sym(ax) for ax, _, _ in AXES})
        if r is None:
            cx.ok('R-GUARD', 'move_to accepts exactly the in-world requests (all three axes, both offsets)', where=cx.where(move_to),
                  function=move_to.qualname, accepts=repr(S))
        else:
            label, found, expd, cex = r
            show = {a: b for a, b in cex.items() if not a.startswith('_')}
            cx.violation('R-GUARD', move_to.qualname, 'accepts-exactly-in-world-requests',
                         f"move_to [{label}] accepts under [{found!r}] but in-world is [{expd!r}]; they differ at {show} "
                         f"(code accepts: {cex['_left']})", where=cx.where(move_to), found=repr(found), expected=repr(expd),
                         counterexample=cex)
    else:
        cx.inconclusive('R-GUARD', 'move_to', 'no accepting path', where=cx.where(move_to), function=move_to.qualname)

    # ------------------------------------------------------------ add_agent (placement)
    aself = Sym(add_agent.params[0])
    aoff = Attr(aself, '_index_offset')
    adom = _dom(aself)
    pnames = {'x': 'x_pos', 'y': 'y_pos', 'z': 'z_pos'}
    succ = [p for p in cx.walker.paths(add_agent, WalkOptions(unroll=1, domain='real')) if p.end != 'raise']
    if succ:
        S = f_or(*[p.cond for p in succ])
        S = _drop_nonposition_atoms(S)
        from sa.terms import TooManyRegions as _TMR
        try:
            r = compare_inside(S, aself, {ax: Sym(pnames[ax]) for ax, _, _ in AXES})
        except _TMR:
            # too many distinct comparison terms for one truth table: judge path by path instead (the accepting paths must
            # each imply "inside", which is the half of the equivalence that keeps agents in the world)
            r = paths_imply_inside(succ, aself, {ax: Sym(pnames[ax]) for ax, _, _ in AXES})
        if r is None:
            cx.ok('R-GUARD', 'add_agent accepts exactly the in-world placements (both offsets)', where=cx.where(add_agent), function=add_agent.qualname)
        else:
            label, found, expd, cex = r
            show = {a: b for a, b in cex.items() if not a.startswith('_')}
            cx.violation('R-GUARD', add_agent.qualname, 'accepts-exactly-in-world-placements',
                         f"SpaceWorld.add_agent [{label}] accepts under [{found!r}] but in-world is [{expd!r}]; they differ at {show} "
                         f"(code accepts: {cex['_left']})", where=cx.where(add_agent), found=repr(found), expected=repr(expd),
                         counterexample=cex)
        for p in succ:
            ctor = [e for e in p.events if e.kind == 'call' and e.data.get('via') == 'ctor' and
                    e.data.get('ctor_class') is not None and e.data['ctor_class'].qualname == PC]
            attach = [e for e in p.events if e.kind == 'call' and any(t.qualname == CORE + 'Agent.add_component' for t in e.data.get('targets', []))]
            ok = False
            if len(ctor) == 1 and len(attach) == 1 and attach[0].data.get('recv') == Sym(add_agent.params[1]) and \
                    attach[0].data.get('args') == (ctor[0].data.get('result'),):
                c = _Ctx(cx.walker, add_agent, WalkOptions())
                b = c.bind_args(pinit, ctor[0].data.get('result'), list(ctor[0].data.get('args', ())),
                                dict(ctor[0].data.get('kw', ())), State(), True)
                if b and all(b.get(ax) == Sym(pnames[ax]) for ax, _, _ in AXES) and b.get(pinit.params[1]) == Sym(add_agent.params[1]):
                    ok = True
            if ok:
                cx.ok('R-FWD', 'placement attaches PositionComponent(x_pos, y_pos, z_pos) to the agent', where=cx.where(add_agent, ctor[0].line),
                      function=add_agent.qualname)
            else:
                cx.violation('R-FWD', add_agent.qualname, 'placement-lands-where-requested',
                             "SpaceWorld.add_agent: an accepted placement must attach to the agent a PositionComponent built "
                             "from (x_pos, y_pos, z_pos) on the matching axes", where=cx.where(add_agent), path=p.lines())
    else:
        cx.inconclusive('R-GUARD', 'add_agent', 'no accepting path', where=cx.where(add_agent), function=add_agent.qualname)

    from .common import check_overrides_forward, check_no_static_alias
    check_overrides_forward(cx, SW, ['move', 'move_to', 'add_agent', 'remove_agent'])
    check_no_static_alias(cx, CORE + 'Environment', ['add_agent', 'remove_agent'])
    # ------------------------------------------------------------ R-ATOMIC
    check_atomic(cx, move_to.qualname, ['IndexError', 'ComponentNotFoundError'])
    check_atomic(cx, move.qualname, ['ComponentNotFoundError'])
    check_atomic(cx, add_agent.qualname, ['Exception', 'DuplicateAgentError'])

    # ------------------------------------------------------------ R-FWD: the wrapping mode asked for is the wrapping mode used
    from .common import check_forwarding_chain
    sw = cx.prog.cls(SW)
    nsub = 0
    for subc in cx.prog.subclasses(sw, strict=True):
        own = subc.methods.get('__init__')
        if own and 'wrap_env' in own[0].params + own[0].kwonly:
            nsub += 1
            check_forwarding_chain(cx, subc.qualname, ['wrap_env'], SW + '.__init__')
    cx.floor('world subclasses whose constructor takes wrap_env', nsub, 1)
    for s_ in cx.effects.sites_of((SW, 'wrap_env')):
        v = s_.ev.data.get('value')
        if s_.owner_q == SW + '.__init__' and v == Sym('wrap_env'):
            cx.ok('R-FWD', 'SpaceWorld.__init__ stores the wrap_env it was given', where=s_.where, function=s_.fn.qualname)
        else:
            cx.violation('R-FWD', s_.fn.qualname, 'wrap_env-stored-as-given',
                         f"{s_.describe()}: the wrapping mode is not the constructor argument", where=s_.where)

    # ------------------------------------------------------------ R-PAIR: leaving drops the position
    rself = Sym(rem_agent.params[0])
    a_id = Sym(rem_agent.params[1])
    n = 0
    for p in cx.walker.paths(rem_agent, WalkOptions(unroll=1)):
        if p.end == 'raise':
            continue
        n += 1
        det = [e for e in p.events if e.kind == 'call' and any(t.qualname == CORE + 'Agent.remove_component' for t in e.data.get('targets', []))
               and e.data.get('args') == (Sym(PC),)]
        resident = [Sub(Attr(rself, 'agents'), a_id)]
        if len(det) == 1 and (strip_versions(det[0].data.get('recv')) in resident or
                              (isinstance(det[0].data.get('recv'), App) and det[0].data['recv'].fn.endswith('get_agent'))):
            cx.ok('R-PAIR', 'remove_agent detaches the PositionComponent of the leaving agent', where=cx.where(rem_agent, det[0].line),
                  function=rem_agent.qualname)
        elif not det and _position_tested_absent(p, rself, a_id):
            cx.ok('R-PAIR', 'remove_agent: nothing to detach on a path that found the leaving agent without a PositionComponent',
                  where=cx.where(rem_agent), function=rem_agent.qualname)
        else:
            cx.violation('R-PAIR', rem_agent.qualname, 'leaving-drops-the-position',
                         "SpaceWorld.remove_agent: a success path does not detach the leaving agent's PositionComponent",
                         where=cx.where(rem_agent), path=p.lines())
    cx.floor('SpaceWorld.remove_agent success paths', n, 1)
    _premises(cx)


def _position_tested_absent(p, rself, a_id) -> bool:
    """The path tested `PositionComponent in <the leaving agent>` and did not take the present branch."""
    from sa.terms import atoms_of, AIn
    for a in atoms_of(p.cond):
        if not (isinstance(a, AIn) and a.x == Sym(PC)):
            continue
        c = strip_versions(a.container)
        if isinstance(c, Attr) and c.name == 'components':
            c = strip_versions(c.base)
        leaving = c == Sub(Attr(rself, 'agents'), a_id) or (isinstance(c, App) and c.fn.endswith('get_agent') and c.args[:2] == (rself, a_id)) or \
            (isinstance(c, App) and c.fn in ('.get', '.pop') and c.args[:2] == (Attr(rself, 'agents'), a_id))
        if leaving and implies(p.cond, a) is not None:
            return True
    return False


def compare_inside(S, self_s, vals):
    """Compare an acceptance condition S with "inside the world on every axis", separately for the two offset values
    (0 continuous, 1 grid) and - when S is a conjunction of per-axis parts - axis by axis.  Returns None or
    (case label, found, expected, counterexample)."""
    from sa.terms import subst_formula, term_symbols, FAnd, TooManyRegions
    off = Attr(self_s, '_index_offset')
    from sa.terms import subst_atoms, FConst, atoms_of, ATruthy
    wrap_atoms = [a for a in atoms_of(S) if isinstance(a, ATruthy) and isinstance(a.t, Attr) and a.t.name == 'wrap_env']
    cases = [(offv, w) for offv in (0, 1) for w in ((True, False) if wrap_atoms else (None,))]
    for offv, wrapv in cases:
        mp = {off: Num(Fraction(offv))}
        Sc = subst_formula(S, mp)
        label = f"_index_offset={offv} ({'continuous' if offv == 0 else 'grid'} world)"
        if wrapv is not None:
            # the acceptance test may be written per topology: judge each case on its own (fewer comparison terms at a time)
            Sc = subst_atoms(Sc, lambda a, wv=wrapv: FConst(wv) if a in wrap_atoms else None)
            label += f", wrap_env={wrapv}"
        exp_axis = {}
        for ax, ext, _ in AXES:
            E = Attr(self_s, ext)
            v = vals[ax]
            exp_axis[ax] = f_or(f_and(mk_cmp(ZERO, '<=', v), mk_cmp(v, '<=', sub(E, Num(Fraction(offv))))), f_not(positive(E)))
        parts = list(Sc.parts) if isinstance(Sc, FAnd) else [Sc]
        groups = {ax: [] for ax, _, _ in AXES}
        mixed = []
        for part in parts:
            syms = term_symbols(part)
            hit = [ax for ax, ext, _ in AXES if vals[ax] in syms or Attr(self_s, ext) in syms]
            if len(hit) == 1:
                groups[hit[0]].append(part)
            else:
                mixed.append(part)
        if not mixed:
            for ax, ext, _ in AXES:
                Sa = f_and(*groups[ax])
                cex = compare(Sa, exp_axis[ax], assume=extent_domain(Attr(self_s, ext)), domain='real')
                if cex is not None:
                    return (f"{label}, axis {ax}", Sa, exp_axis[ax], cex)
            continue
        Eall = f_and(*exp_axis.values())
        dom = f_and(*[extent_domain(Attr(self_s, ext)) for _, ext, _ in AXES])
        cex = compare(Sc, Eall, assume=dom, domain='real')
        if cex is not None:
            return (label, Sc, Eall, cex)
    return None


def paths_imply_inside(succ, self_s, vals):
    """Every accepting path establishes, for each axis, 0 <= v <= extent - offset or a non-positive extent (both offsets)."""
    from sa.terms import subst_formula
    off = Attr(self_s, '_index_offset')
    dom = f_and(*[extent_domain(Attr(self_s, ext)) for _, ext, _ in AXES])
    for p in succ:
        F0 = _drop_nonposition_atoms(p.cond)
        for offv in (0, 1):
            F = subst_formula(F0, {off: Num(Fraction(offv))})
            for ax, ext, _ in AXES:
                E = Attr(self_s, ext)
                v = vals[ax]
                goal = f_or(f_and(mk_cmp(ZERO, '<=', v), mk_cmp(v, '<=', sub(E, Num(Fraction(offv))))), f_not(positive(E)))
                cex = implies(F, goal, assume=dom, domain='real')
                if cex is not None:
                    return (f"_index_offset={offv}, axis {ax}, path at line {p.last.line if p.last else '?'}", F, goal,
                            dict(cex, _left=True) if isinstance(cex, dict) else {'_left': True})
    return None


def _inside(self_s, off, vals):
    parts = []
    for ax, ext, _ in AXES:
        E = Attr(self_s, ext)
        v = vals[ax]
        parts.append(f_or(f_and(mk_cmp(ZERO, '<=', v), mk_cmp(v, '<=', sub(E, off))), f_not(positive(E))))
    return f_and(*parts)


def _has_position(p, fn):
    return None


def _drop_atoms(S, _):
    return _drop_nonposition_atoms(S)


def _drop_nonposition_atoms(S):
    """Set aside every literal that does not speak about a coordinate, an extent, the offset or the topology (component
    present, agent not a duplicate, ...): those are other rules' business."""
    from sa.terms import drop_literals, term_symbols
    keep_names = {'width', 'height', 'depth', '_index_offset', 'wrap_env'}
    coord = {'x', 'y', 'z', 'x_pos', 'y_pos', 'z_pos'}

    def pred(a):
        from sa.terms import AIn, AIs, AEq, AIsInst, ATruthy
        if isinstance(a, (AIn, AIs, AEq, AIsInst)):
            return True
        if isinstance(a, ATruthy):
            return not (isinstance(a.t, Attr) and a.t.name == 'wrap_env')
        syms = term_symbols(a)
        for s in syms:
            if isinstance(s, Attr) and s.name in keep_names:
                return False
            if isinstance(s, Sym) and s.name in coord:
                return False
        return True
    return drop_literals(S, pred)


def _premises(cx):
    from .common import include_premises
    _ACC = ('.get_component', '.__getitem__', '.add_component', '.remove_component', '.register_component', '.deregister_component',
            'Environment.add_agent', 'Environment.remove_agent')
    include_premises(cx, ['C03'], "the position a world reads and writes is the agent's own PositionComponent (look-up by exact type), and "
                     "joining / leaving registers with the world's own model: C03's accessor and join / leave rules",
                     only=lambda o: (o.function or '').endswith(_ACC))
    include_premises(cx, ['C04'], 'a rejected placement changes nothing and an accepted one adds exactly this agent: residency is kept by C04\'s rules',
                     only=lambda o: o.rule in ('R-DISC', 'R-ATOMIC') and (o.function.endswith('.add_agent') or o.function.endswith('.remove_agent')))

