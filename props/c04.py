"""C04 - the environment holds exactly the live agents; failed operations leave no trace."""
from __future__ import annotations

import ast

from sa.report import Cx
from sa.walker import WalkOptions
from sa.terms import Sym, Attr, Sub, App, Fresh, Const, AIn, f_not, implies
from .common import (CORE, ENV, check_atomic, check_keyed_insert, check_keyed_delete, check_lookup, check_pure,
                     iteration_sources, order_class, strip_versions)

PID = 'C04'
EXPLANATION = (
    "R-ATOMIC over the frozen table of documented failures (Environment.add_agent -> DuplicateAgentError; "
    "Environment.remove_agent / get_agent(strict) -> AgentNotFoundError; SpaceWorld.add_agent -> bounds Exception and "
    "DuplicateAgentError via super(); SpaceWorld.remove_agent -> AgentNotFoundError via super()): on every feasible CFG "
    "path that ends in the error - raised directly or by a resolved callee, with the callee's raise condition "
    "instantiated at the call and contradicted paths pruned - no write to non-fresh state precedes the raise (calls "
    "count with their transitive write sets). R-DISC on Environment.agents: the only writers are the empty initialiser, "
    "agents[a.id] = a under the absence test and the delete under the presence test. Single source of truth: "
    "get_agent / __len__ / __iter__ / get_agents read no environment field but `agents`, write nothing and iterate it "
    "only with order-preserving constructs (dict insertion order = joining order). Removal of a present agent has no "
    "direct raise. Decides atomicity and the map discipline for every state; not errors outside the documented set.")
EXPLANATION += (" The documented error is built as Error(identifier, self) in add_agent / remove_agent / get_agent. Premises: C08's placement predicate for SpaceWorld.add_agent / remove_agent, C03's join/leave rules for add_agent / remove_agent.")
EXPLANATION += (' The deprecated camelCase spellings addAgent / removeAgent / getAgent forward every argument unchanged to one method of the receiver.')
EXPLANATION += (" Premises widened: C08's index-offset rules, C03's Agent.__init__ rule; no class-level alias captures add_agent / remove_agent / get_agent.")
ASSUMPTIONS = ["dict preserves insertion order (language fact)", "component sets are not modified while resident (C03's dimension)"]

ALOC = (CORE + 'Environment', 'agents')


def run(cx: Cx):
    prog = cx.prog
    env = prog.cls(CORE + 'Environment')
    add = cx.fn(CORE + 'Environment.add_agent')
    rem = cx.fn(CORE + 'Environment.remove_agent')
    get = cx.fn(CORE + 'Environment.get_agent')

    # ------------------------------------------------------------ clause 1: R-ATOMIC table
    check_atomic(cx, add.qualname, ['DuplicateAgentError'])
    check_atomic(cx, rem.qualname, ['AgentNotFoundError'])
    check_atomic(cx, get.qualname, ['AgentNotFoundError'])
    sw_add = cx.fn(ENV + 'SpaceWorld.add_agent')
    sw_rem = cx.fn(ENV + 'SpaceWorld.remove_agent')
    check_atomic(cx, sw_add.qualname, ['Exception', 'DuplicateAgentError'])
    check_atomic(cx, sw_rem.qualname, ['AgentNotFoundError'])
    # every other package override of the two operations is subject to the same rule for whatever documented errors
    # reach it
    for sub in prog.subclasses(env, strict=True):
        for name, excs in (('add_agent', ['DuplicateAgentError', 'Exception']), ('remove_agent', ['AgentNotFoundError'])):
            if name in sub.methods:
                q = sub.methods[name][0].qualname
                if q not in (sw_add.qualname, sw_rem.qualname):
                    check_atomic(cx, q, excs, must_have=False)

    # ------------------------------------------------------------ clause 2: R-DISC on Environment.agents
    a_self = Sym(add.params[0])
    agent = Sym(add.params[1])
    check_keyed_insert(cx, add.qualname, ALOC, Attr(a_self, 'agents'), Attr(agent, 'id'), agent, unroll=1)
    check_keyed_delete(cx, rem.qualname, ALOC, Attr(Sym(rem.params[0]), 'agents'), Sym(rem.params[1]), unroll=1)
    sites = cx.effects.sites_of(ALOC)
    for s in sites:
        if s.owned_within((add.qualname, rem.qualname)):
            continue
        v = s.ev.data.get('value')
        if s.owner_q == env.qualname + '.__init__' and s.kind == 'rebind' and isinstance(v, Fresh) and v.kind == 'dict' and not v.items:
            cx.ok('R-DISC', 'agents initialised as an empty dict', where=s.where, function=s.fn.qualname)
        else:
            cx.violation('R-DISC', s.fn.qualname, f"agents-{s.kind}",
                         f"{s.describe()}: Environment.agents is written outside add_agent/remove_agent", where=s.where)
    cx.floor('Environment.agents write sites', len(sites), 3)

    # ------------------------------------------------------------ clause 3: observers
    observers = ['get_agent', '__len__', '__iter__', 'get_agents']
    for name in observers:
        fn = cx.fn(f"{env.qualname}.{name}")
        check_pure(cx, fn.qualname)
        # environment fields read
        reads = set()
        # the observer and the private helpers it was split into
        group = [fn]
        seen_q = {fn.qualname}
        stack = [cx.effects.key(fn)]
        while stack:
            k = stack.pop()
            for c in cx.effects.callees.get(k, ()):
                nm = c.split('#')[0].rsplit('.', 1)[-1]
                if nm.startswith('_') and not nm.startswith('__') and c not in seen_q and c in prog.functions:
                    seen_q.add(c)
                    group.append(prog.functions[c])
                    stack.append(c)
        for g in group:
            for n in ast.walk(g.node):
                if isinstance(n, ast.Attribute) and isinstance(n.ctx, ast.Load):
                    bt = cx.ti.expr_type(n.value, g)
                    if bt and bt[0] == 'inst' and prog.is_subclass(bt[1], env):
                        ow = cx.ti.field_owner(bt[1], n.attr)
                        if ow is not None and ow == env:
                            reads.add(n.attr)
        if reads <= {'agents'} and reads:
            cx.ok('R-PURE', f"{name} reads only Environment.agents", where=cx.where(fn), function=fn.qualname)
        elif not reads:
            cx.violation('R-PURE', fn.qualname, 'reads-agents',
                         f"{fn.qualname} does not read Environment.agents: it cannot agree with the other observers",
                         where=cx.where(fn))
        else:
            cx.violation('R-PURE', fn.qualname, 'single-source-of-truth',
                         f"{fn.qualname} reads environment fields {sorted(reads)}; only `agents` may decide membership",
                         where=cx.where(fn))
        # order-preserving iteration
        agents = Attr(Sym(fn.params[0]), 'agents')
        for p in cx.walker.paths(fn, WalkOptions(unroll=1)):
            for it, line in iteration_sources(p):
                oc = order_class(it, agents)
                if oc == 'reordered':
                    cx.violation('R-ITER', fn.qualname, 'joining-order-iteration',
                                 f"{fn.qualname} iterates {it!r}: not the joining (insertion) order of the agents",
                                 where=cx.where(fn, line))
    ln = cx.fn(env.qualname + '.__len__')
    for p in cx.walker.paths(ln, WalkOptions(unroll=1)):
        v = p.last.data.get('value') if p.end == 'return' else None
        if v == App('len', (Attr(Sym(ln.params[0]), 'agents'),)):
            cx.ok('R-GUARD', 'len(env) == len(agents)', where=cx.where(ln), function=ln.qualname)
        else:
            cx.violation('R-GUARD', ln.qualname, 'len-of-agents', f"Environment.__len__ returns {v!r}, not len(self.agents)",
                         where=cx.where(ln))
    it = cx.fn(env.qualname + '.__iter__')
    ag = Attr(Sym(it.params[0]), 'agents')
    for p in cx.walker.paths(it, WalkOptions(unroll=1)):
        v = p.last.data.get('value') if p.end == 'return' else None
        good = False
        if isinstance(v, Fresh) and v.detail is not None and len(v.detail.gens) == 1:
            tgt, src, conds = v.detail.gens[0]
            if order_class(src, ag) == 'inorder' and not conds:
                e = v.detail.elt
                if strip_versions(src) == ag and e == Sub(ag, tgt):
                    good = True
                elif isinstance(src, App) and src.fn == '.values' and e == tgt:
                    good = True
        elif isinstance(v, App) and v.fn == 'iter' and v.args and isinstance(v.args[0], App) and v.args[0].fn == '.values' \
                and v.args[0].args[0] == ag:
            good = True
        if good:
            cx.ok('R-ITER', 'iter(env) yields every agent once in joining order', where=cx.where(it), function=it.qualname)
        elif isinstance(v, Fresh) and v.detail is not None and v.detail.gens and order_class(v.detail.gens[0][1], ag) == 'reordered':
            pass    # already reported by the order rule above
        else:
            cx.inconclusive('R-ITER', 'Environment.__iter__', f"returns {v!r}: not a recognised in-order traversal of agents",
                            where=cx.where(it), function=it.qualname)
    check_lookup(cx, get.qualname, Attr(Sym(get.params[0]), 'agents'), Sym(get.params[1]), 'AgentNotFoundError')
    from .common import check_overrides_forward
    check_overrides_forward(cx, env.qualname, ['get_agent', '__len__', '__iter__', 'get_agents'])
    from .common import check_deprecated_aliases_forward
    check_deprecated_aliases_forward(cx, env.qualname, only=('addAgent', 'removeAgent', 'getAgent'))
    from .common import check_error_is_plain_exception
    for e_ in ('AgentNotFoundError', 'DuplicateAgentError'):
        check_error_is_plain_exception(cx, CORE + e_)

    # ------------------------------------------------------------ clause 4: removing a present agent has no direct raise
    for fnr in (rem, sw_rem):
        key = Sym(fnr.params[1])
        present = AIn(key, Attr(Sym(fnr.params[0]), 'agents'))
        bad = None
        for p in cx.walker.paths(fnr, WalkOptions(unroll=1)):
            if p.end == 'raise' and p.last.data.get('direct') and implies(p.cond, present) is None:
                bad = p
        if bad is not None:
            cx.violation('R-GUARD', fnr.qualname, 'present-agent-removal-succeeds',
                         f"{fnr.qualname} raises {bad.last.data.get('exc')} although the agent is present",
                         where=cx.where(fnr, bad.last.line), path=bad.lines())
        else:
            cx.ok('R-GUARD', f"{fnr.qualname}: no direct raise on the present branch", where=cx.where(fnr), function=fnr.qualname)

    # ------------------------------------------------------------ clause 4a: an agent is known by the identifier it was created with
    ainit_ = cx.fn(CORE + 'Agent.__init__')
    for p in cx.walker.paths(ainit_, WalkOptions(unroll=1)):
        if p.end == 'raise':
            continue
        st_ = [e for e in p.events if e.kind == 'store' and e.data.get('attr') == 'id']
        if len(st_) == 1 and st_[0].data.get('value') == Sym(ainit_.params[1]):
            cx.ok('R-FWD', 'Agent.id := the identifier given to the constructor, unchanged', where=cx.where(ainit_, st_[0].line), function=ainit_.qualname)
        else:
            cx.violation('R-FWD', ainit_.qualname, 'id-field-from-parameter',
                         f"Agent.__init__ does not store its '{ainit_.params[1]}' argument unchanged in the field 'id' (found "
                         f"{[repr(e.data.get('value')) for e in st_]}): the environment is keyed by another value than the identifier the "
                         f"agent was created with, so lookup and removal by that identifier fail and distinct identifiers can collide",
                         where=cx.where(ainit_))
        break

    # ------------------------------------------------------------ clause 4b: a rejection does not need a model
    # an environment may have no model (Environment(None), as the tests build it): on the paths that end in the documented
    # rejection nothing reads through self.model - otherwise the operation fails with AttributeError instead
    from sa.terms import subterms_of
    for fnr in (add, rem, get):
        me_ = Sym(fnr.params[0])
        hit = None
        for p in cx.walker.paths(fnr, WalkOptions(unroll=1)):
            if not (p.end == 'raise' and p.last.data.get('direct') and p.last.data.get('exc') in ('DuplicateAgentError', 'AgentNotFoundError')):
                continue
            for e in p.events[:-1]:
                terms_ = [e.data.get('value'), e.data.get('recv')] + list(e.data.get('args') or ()) if e.kind in ('assign', 'call') else []
                for t_ in terms_:
                    if t_ is None:
                        continue
                    if any(isinstance(y, Attr) and isinstance(strip_versions(y.base), Attr) and strip_versions(y.base).name == 'model'
                           and strip_versions(strip_versions(y.base).base) == me_ for y in subterms_of(t_)):
                        hit = hit or (p, e, t_)
        if hit:
            p, e, t_ = hit
            cx.violation('R-ORDER', fnr.qualname, 'rejection-does-not-need-a-model',
                         f"{fnr.qualname} reads {t_!r} (line {e.line}) before it raises {p.last.data.get('exc')}: in an environment without a "
                         f"model the rejected operation ends in AttributeError instead of the documented error", where=cx.where(fnr, e.line),
                         path=p.lines())
        else:
            cx.ok('R-ORDER', f"{fnr.name}: the documented rejection is reached without reading through self.model", where=cx.where(fnr),
                  function=fnr.qualname)

    # ------------------------------------------------------------ clause 5: the documented error names the environment it came from
    # the error object is built from (identifier, self): building it from another object (self.model.environment) fails with
    # AttributeError in an environment without a model and names the wrong environment in a second environment of a model
    for fnq, exc, idt in ((add, 'DuplicateAgentError', Attr(Sym(add.params[1]), 'id')), (rem, 'AgentNotFoundError', Sym(rem.params[1])),
                          (get, 'AgentNotFoundError', Sym(get.params[1]))):
        me = Sym(fnq.params[0])
        n = 0
        bad = None
        for p in cx.walker.paths(fnq, WalkOptions(unroll=1)):
            if p.end == 'raise' and p.last.data.get('direct') and p.last.data.get('exc') == exc:
                n += 1
                args = p.last.data.get('args')
                if args is None or tuple(strip_versions(a) for a in args) != (idt, me):
                    bad = (p, args)
            elif p.end == 'raise' and not p.last.data.get('direct') and p.last.data.get('exc') == exc and fnq is not get and \
                    tuple(p.last.data.get('via', ()))[:1] == (get.qualname,):
                # the strict getter of the same environment raises it: get_agent(<identifier>, throw_error=True) on self
                ce = [e for e in p.events if e.kind == 'call' and any(t.qualname == get.qualname for t in e.data.get('targets', []))]
                if ce and strip_versions(ce[-1].data.get('recv')) == me and \
                        tuple(strip_versions(a) for a in ce[-1].data.get('args', ())[:1]) == (idt,):
                    n += 1
                else:
                    bad = (p, ce[-1].data.get('args') if ce else None)
        if bad is not None:
            cx.violation('R-FWD', fnq.qualname, f"{exc}-built-from-the-identifier-and-this-environment",
                         f"{fnq.qualname} raises {exc}{bad[1]!r}; the documented error is {exc}({idt!r}, {me!r}) - built from anything "
                         f"else it fails with AttributeError in an environment that has no model and reports the wrong environment in a "
                         f"model's second environment", where=cx.where(fnq, bad[0].last.line))
        elif n:
            cx.ok('R-FWD', f"{fnq.name}: {exc}(identifier, self)", where=cx.where(fnq), function=fnq.qualname)
        else:
            cx.inconclusive('R-FWD', f"{fnq.name} {exc}", 'no direct raise of the documented error found', where=cx.where(fnq),
                            function=fnq.qualname)

    # the error classes themselves: their constructors only store and format (a helper that inspects the identifiers -
    # difflib on ids that are not strings - turns the documented error into whatever that helper raises)
    from .common import check_error_ctor_pure
    for exq in (CORE + 'AgentNotFoundError', CORE + 'DuplicateAgentError'):
        check_error_ctor_pure(cx, prog.cls(exq))

    from .common import include_premises
    include_premises(cx, ['C08'], 'placing an agent outside a spatial world must fail: the placement test is C08\'s',
                     only=lambda o: o.function.endswith('.add_agent') or o.function.endswith('.remove_agent')
                     or 'index-offset' in o.key or 'offset-set-after' in o.key)
    _JOIN_LEAVE = ('.add_agent', '.remove_agent', '.register_component', '.deregister_component', '.get_component', '.__getitem__',
                   '.add_component', '.remove_component')
    include_premises(cx, ['C03'], 'a present agent can always be removed and the listings follow: join/leave bookkeeping, and the '
                     'component accessors and pool operations it goes through, are C03\'s',
                     only=lambda o: (o.function or '').endswith(_JOIN_LEAVE) or 'compare-by-identity' in o.key
                     or (o.function or '').endswith('Agent.__init__'))
    # the deprecated spellings dispatch on the receiver like the documented ones (a class-level alias of the base implementation
    # skips the spatial worlds' overrides: no bounds test, no position)
    from .common import check_no_static_alias
    check_no_static_alias(cx, env.qualname, ['add_agent', 'remove_agent', 'get_agent'])
